"""C09 - Light hardware output equals the priority stack's colour.

SUT: mpf.devices.light.Light (stack, fades, transparent fade-outs, hardware update with its shortcuts),
light_player (machine + two modes, generated per run), and four kinds of hardware backend:
  direct    SimLight channels that record set_fade() and interpolate like hardware,
  hwfade    LightPlatformDirectFade channels with a limited hardware fade time (stub records brightness+fade_ms),
  software  the in-tree `drivers` light platform (LightPlatformSoftwareFade stepping a coil's hold power),
  batch     the real PlatformBatchLightSystem feeding a stub "set N sequential channels" command.
Oracle: reference stack model (models/light_stack.py) driven by the calls that were actually processed
(direct API calls by the workload; a tap on Light's public methods for calls made by light_player / mode stop).
"""
from sim.harness import draw_knobs

ID = "C09"
LEVEL = "exploration"
RUNS = {"quick": 4000, "thorough": 90000}
WALL_CAP = {"quick": 120, "thorough": 3000}
RULE = ("one case = one generated history (6-45 operations: color/on/off/remove_from_stack_by_key/clear_stack, "
        "light_player events of a per-run generated light_player config in the machine and two modes, mode "
        "start/stop, samples, quiescence checkpoints) against 17 lights on four backends (direct hardware fade, "
        "limited hardware fade + stepping task, software fade through coils, batched chains) in a per-run "
        "configuration (rgbw_white_behavior, update rate, brightness, colour-correction profile, default fade, "
        "batch parameters), executed on the real Light/"
        "light_player/fade/batch code under a seeded scheduler (stalls, same-instant tie permutations). Operation "
        "instants are biased into running fades, onto fade ends (+-1 ms) and onto pending loop timers (software-"
        "fade / batch ticks, fade-out removal delays). A case is non-trivial when it reached a reach probe; "
        "distinct = distinct sequence of observed event kinds")
PROBES = ["hw_check_midrun_direct", "hw_check_midrun_hwfade", "hw_check_midrun_software", "hw_check_midrun_batch",
          "cmd_inside_fade", "cmd_at_fade_end", "cmd_on_timer", "instant_during_sw_fade", "instant_during_batch_fade",
          "fade_over_lower_prio_greater_key", "priority_tie", "replace_key", "ignored_lower_prio_same_key",
          "remove_with_fade", "remove_fading_out_key", "remove_under_opaque", "readd_during_fadeout",
          "fadeout_over_running_fade", "fade_from_running_fade", "clear_with_entries", "lp_event", "lp_stop",
          "mode_stop_with_lights", "checkpoint", "sample_in_fade", "sample_in_fadeout", "batch_multi_callback",
          "hw_check_nonzero", "stall_inside_fade", "corrected_hw_check"]
REAL = ["mpf.devices.light.Light", "mpf.config_players.light_player.LightPlayer", "mpf.core.light_controller",
        "mpf.platforms.interfaces.light_platform_interface (LightPlatformDirectFade/SoftwareFade)",
        "mpf.platforms.driver_light_platform", "mpf.devices.driver.Driver (enable/disable)",
        "mpf.core.platform_batch_light_system", "mpf.core.rgb_color", "Mode start/stop, EventManager, DelayManager",
        "MachineController boot"]
STUBS = ["event loop (SimLoop: virtual time, stalls, tie order)", "clock (SimClock)",
         "hardware leaf objects: SimLight (records set_fade), SimDriver (records enable/disable), HwFadeLight "
         "(records brightness + fade_ms), batch update callback (records first channel + sequential brightness "
         "list)", "in-memory data manager"]
ASSUMPTIONS = ["ties between equal priorities are resolved by key (string order), as implemented/documented by "
               "LightStackEntry; a color() with a lower priority than the live entry of the same key is ignored "
               "(documented in light.py); removing a key that is fading out ends the fade-out at once",
               "the brightness setting is fixed before the first light command of a run",
               "batch update callback is a stub; in some runs it really suspends (no in-tree platform does)",
               "time does not advance inside one loop iteration; lateness only through injected stalls"]
# Oracle rules (violation classes) and relaxations
#   logical_colour          get_color() == model at every sample / before+after every op, per channel within the
#                           quantisation allowance the model derives (0 for static colours: exact equality)
#   fade_outside_endpoints  same comparison, but the SUT colour is outside the box spanned by the running fade's
#                           endpoints (statement: "never outside them")
#   hw_final_<backend>      no fade running in the model (+ one software-fade/batch tick, see hw_settled/settle):
#                           brightness last commanded to every channel == model colour after brightness / profile /
#                           channel mapping, tolerance 1/255.  Relaxations: brightness-then-profile or profile-then-
#                           brightness; the intermediate colour exact or quantised (floor/round/ceil); white_only's
#                           "shade of white" judged on the logical or the corrected colour; a hardware fade that was
#                           commanded late and therefore ends late is not judged (only the commanded brightness)
#   batch_grouping          one batch command = sequential channels of one chain, <= max_batch_size, values in 0..1
#   lp_unexpected_call / lp_missing_call   light_player and mode stop make exactly the Light API calls the generated
#                           light_player config asks for (colour, fade, mode priority + entry priority, key)
#   crash_in_light_path     an exception from MPF code reached the loop
# Not judged (outside the statement): what the hardware shows WHILE a fade runs.
STATE_ABSTRACTION = "(backend of the light, kind of op, what the top of the model stack is doing, stack depth)"

# ---------------------------------------------------------------------------------------------------------
# static description of machines/c09 (channel roles are taken from the config's meaning, not from the SUT)
# ---------------------------------------------------------------------------------------------------------
LIGHTS = {
    "d_rgb": {"be": "direct", "ch": [("red", "led-1-r"), ("green", "led-1-g"), ("blue", "led-1-b")]},
    "d_w": {"be": "direct", "ch": [("white", "matrix-2")]},
    "d_bgr": {"be": "direct", "ch": [("blue", "led-3-r"), ("green", "led-3-g"), ("red", "led-3-b")],
              "on": (255, 128, 0)},
    "d_cc": {"be": "direct", "ch": [("red", "led-4-r"), ("green", "led-4-g"), ("blue", "led-4-b")], "prof": True},
    "d_fade": {"be": "direct", "ch": [("red", "led-5-r"), ("green", "led-5-g"), ("blue", "led-5-b")], "fade": 150},
    "d_rgbw": {"be": "direct", "ch": [("red", "led-10"), ("green", "led-11"), ("blue", "led-12"),
                                      ("white", "led-13")], "on": (192, 192, 192)},
    "h_rgb": {"be": "hwfade", "ch": [("red", "hwfade-20-r"), ("green", "hwfade-20-g"), ("blue", "hwfade-20-b")]},
    "h_w": {"be": "hwfade", "ch": [("white", "hwfade-21")], "on": (224, 224, 224)},
    "s_w1": {"be": "software", "ch": [("white", "c_l1")]},
    "s_w2": {"be": "software", "ch": [("white", "c_l2")], "on": (128, 128, 128), "prof": True},
    "s_rgb": {"be": "software", "ch": [("red", "c_r"), ("green", "c_g"), ("blue", "c_b")]},
    "b_rgb0": {"be": "batch", "ch": [("red", "0-0"), ("green", "0-1"), ("blue", "0-2")]},
    "b_rgb1": {"be": "batch", "ch": [("red", "0-3"), ("green", "0-4"), ("blue", "0-5")]},
    "b_rgbw": {"be": "batch", "ch": [("red", "0-6"), ("green", "0-7"), ("blue", "0-8"), ("white", "0-9")]},
    "b_w": {"be": "batch", "ch": [("white", "0-10")]},
    "b_gap": {"be": "batch", "ch": [("red", "0-15"), ("green", "0-16"), ("blue", "0-17")], "on": (64, 255, 64)},
    "b_rgb2": {"be": "batch", "ch": [("red", "1-0"), ("green", "1-1"), ("blue", "1-2")], "prof": True},
}
LIGHT_NAMES = list(LIGHTS)
BACKENDS = ("direct", "hwfade", "software", "batch")
BY_BACKEND = {be: [n for n in LIGHT_NAMES if LIGHTS[n]["be"] == be] for be in BACKENDS}
MODE_PRIO = {"_global": 0, "m1": 100, "m2": 200}

COLORS = [(255, 255, 255), (0, 0, 0), (255, 0, 0), (0, 255, 0), (0, 0, 255), (128, 128, 128), (10, 200, 90),
          (255, 128, 0), (64, 64, 64), (200, 200, 201), (1, 1, 1), (254, 3, 127)]
KEYS = ["a", "m", "z", "", "k5"]
PRIOS = [0, 1, 1, 2, 2, 5, -1]
FADES = [0, 0, None, 30, 100, 100, 400, 1000, 2500]
PROFILES = [
    {"gamma": 2.5, "whitepoint": [1.0, 1.0, 1.0], "linear_slope": 1.0, "linear_cutoff": 0.0},
    {"gamma": 1.0, "whitepoint": [0.9, 0.8, 0.7], "linear_slope": 0.75, "linear_cutoff": 0.1},
    {"gamma": 2.2, "whitepoint": [1.0, 0.9, 1.0], "linear_slope": 1.0, "linear_cutoff": 0.0},
]
TOL_B = 1.0 / 255.0 + 1e-6


# ---------------------------------------------------------------------------------------------------------
# plan
# ---------------------------------------------------------------------------------------------------------
def _when(ch):
    w = ch.weighted("when", [("rel", 4), ("fade", 4), ("end", 3), ("timer", 2), ("now", 1)])
    if w == "rel":
        return ["rel", ch.pick("dt", [0.0, 0.001, 0.01, 0.02, 0.05, 0.1, 0.25, 0.5, 1.0, 2.6])]
    if w == "fade":
        return ["fade", ch.choice("fade_idx", 4), ch.pick("frac", [0.5, 0.1, 0.25, 0.75, 0.9, 0.99])]
    if w == "end":
        return ["end", ch.choice("end_idx", 4), ch.pick("end_delta", [0.0, 0.0, -0.001, 0.001])]
    if w == "timer":
        return ["timer", ch.choice("timer_idx", 6)]
    return ["rel", 0.0]


def _hex(c):
    return "%02x%02x%02x" % tuple(c)


def _gen_lp(ch, ctxname, active):
    """A light_player section: 3 events with 1-4 light entries each, plus one 'stop' event."""
    out = {}
    pool = active + [n for n in LIGHT_NAMES if n not in active]
    for i in range(3):
        ev = {}
        for _ in range(1 + ch.choice("lp_n", 4)):
            light = pool[ch.choice("lp_light", min(len(pool), len(active) + 2))]
            col = ch.weighted("lp_col", [("hex", 6), ("on", 1), ("stop", 1.5)])
            e = {"color": _hex(ch.pick("lp_hex", COLORS)) if col == "hex" else col}
            f = ch.pick("lp_fade", [None, None, 0, 50, 200, 600, 1500])
            if f is not None:
                e["fade"] = "%dms" % f
            if col != "stop":
                e["priority"] = ch.pick("lp_prio", [0, 0, 1, 2, -150, 150])
            ev[light] = e
        out["lp_%s_%d" % (ctxname, i)] = ev
    return out


def plan(ch, tier):
    knobs = draw_knobs(ch)
    cfg = {
        "rgbw": ch.pick("rgbw", ["duck_rgb", "white_only", "min_rgb"]),
        "hz": ch.pick("hz", [50, 50, 20, 100]),
        "default_fade_ms": ch.weighted("dfade", [(0, 5), (80, 1)]),
        "default_profile": ch.flag("dprofile", 0.15),
        "profile": ch.choice("profile", len(PROFILES)),
        "brightness": ch.weighted("brightness", [(1.0, 5), (0.5, 1), (0.75, 1), (0.25, 0.5)]),
        "batch": {"max_fade_ms": ch.pick("b_maxfade", [0, 0, 100, 40960]),
                  "max_batch_size": ch.pick("b_size", [64, 64, 2, 4]),
                  "cb_yield": ch.weighted("b_yield", [(None, 5), (0.0, 1), (0.003, 1)])},
        "hwfade_max_ms": ch.pick("hwfade_max", [100, 20, 1000]),
    }
    # active lights: 1-4, at least one backend drawn first so that all backends get equal attention
    active = []
    first_be = ch.pick("be0", ["direct", "software", "batch", "hwfade", "software", "batch"])
    active.append(ch.pick("l0", BY_BACKEND[first_be]))
    for _ in range(ch.weighted("nactive", [(0, 3), (1, 3), (2, 2), (3, 1)])):
        n = ch.pick("lN", LIGHT_NAMES)
        if n not in active:
            active.append(n)
    lp = {"_global": _gen_lp(ch, "g", active), "m1": _gen_lp(ch, "m1", active), "m2": _gen_lp(ch, "m2", active)}
    lp_events = sorted(ev for sec in lp.values() for ev in sec)
    n = 6 + ch.choice("nops", 40)
    ops = []
    for _ in range(n):
        kind = ch.weighted("op", [("color", 10), ("remove", 5), ("on", 1), ("off", 1.5), ("clear", 0.7),
                                  ("sample", 4), ("lp", 3), ("mode", 1.2), ("checkpoint", 1)])
        op = {"op": kind, "when": _when(ch)}
        if kind in ("color", "remove", "on", "off", "clear"):
            op["light"] = ch.pick("light", active)
        if kind in ("color", "on", "off"):
            op["fade"] = ch.pick("fade", FADES)
            op["prio"] = ch.pick("prio", PRIOS)
            op["key"] = ch.pick("key", KEYS)
        if kind == "color":
            op["color"] = list(ch.pick("color", COLORS))
            op["form"] = ch.choice("form", 3)
        elif kind == "on":
            op["brightness"] = ch.pick("on_b", [None, 255, 0])
        elif kind == "remove":
            op["key"] = ch.pick("key", KEYS + ["_global.light_player", "m1.light_player"])
            op["fade"] = ch.pick("fade", FADES)
        if kind in ("color", "off", "remove") and ch.flag("live_key", 0.6 if kind == "remove" else 0.25):
            # resolved at run time: the n-th key that is in the light's stack right now (if any)
            op["live_key"] = ch.choice("live_key_idx", 4)
        elif kind == "lp":
            op["event"] = ch.pick("lp_event", lp_events)
        elif kind == "mode":
            op["mode"] = ch.pick("mode", ["m1", "m2"])
            op["action"] = ch.pick("mode_action", ["start", "stop"])
        ops.append(op)
    # most histories want the modes running early on
    pre = []
    if ch.flag("m1_on", 0.6):
        pre.append({"op": "mode", "mode": "m1", "action": "start", "when": ["rel", 0.0]})
    if ch.flag("m2_on", 0.4):
        pre.append({"op": "mode", "mode": "m2", "action": "start", "when": ["rel", 0.0]})
    return {"knobs": knobs, "cfg": cfg, "active": active, "lp": lp, "ops": pre + ops}


def shrink(plan):
    """Simpler plans: boring configuration first, then simpler operation timing / arguments."""
    import copy

    def variant(fn):
        p = copy.deepcopy(plan)
        fn(p)
        return p
    cfg = plan["cfg"]
    boring = [("brightness", 1.0), ("default_profile", False), ("default_fade_ms", 0), ("hz", 50), ("rgbw", "duck_rgb"),
              ("profile", 0), ("hwfade_max_ms", 100)]
    for k, v in boring:
        if cfg[k] != v:
            yield variant(lambda p, k=k, v=v: p["cfg"].__setitem__(k, v))
    for k, v in (("cb_yield", None), ("max_batch_size", 64), ("max_fade_ms", 0)):
        if cfg["batch"][k] != v:
            yield variant(lambda p, k=k, v=v: p["cfg"]["batch"].__setitem__(k, v))
    kn = plan["knobs"]
    if kn.get("p_stall") or kn.get("shuffle_ties"):
        yield variant(lambda p: p["knobs"].update(p_stall=0.0, shuffle_ties=False))
    for c in sorted(plan["lp"]):
        if plan["lp"][c] and not any(op.get("event") in plan["lp"][c] for op in plan["ops"]):
            yield variant(lambda p, c=c: p["lp"].__setitem__(c, {}))
    for i, op in enumerate(plan["ops"]):
        if op["when"] != ["rel", 0.01] and op["when"][0] != "rel":
            yield variant(lambda p, i=i: p["ops"][i].__setitem__("when", ["rel", 0.01]))
        if "live_key" in op:
            yield variant(lambda p, i=i: p["ops"][i].pop("live_key"))
        if op.get("form"):
            yield variant(lambda p, i=i: p["ops"][i].__setitem__("form", 0))


def on_crash(ctx, crash):
    """Every operation of the workload is a legal light command: an exception raised inside the light path that
    reaches the loop (MPF stops, the lights freeze) makes 'hardware equals the stack's colour' impossible.
    Exceptions whose innermost frame is outside /mpf/ (harness code) stay harness errors."""
    import traceback
    exc = crash.exc
    if exc is None:
        return None
    chain = []
    e = exc
    while e is not None and len(chain) < 5:
        chain.append(e)
        e = e.__cause__ or e.__context__
    for e in reversed(chain):
        frames = traceback.extract_tb(e.__traceback__)
        if frames and "/mpf/" in frames[-1].filename and "/verif/" not in frames[-1].filename:
            last = frames[-1]
            return ("crash_in_light_path", "%s in %s" % (type(e).__name__, last.name),
                    "%s: %s raised in %s (%s:%d) reached the event loop: MPF stops"
                    % (type(e).__name__, e, last.name, last.filename.split("/mpf/")[-1], last.lineno))
    return None


def warm():
    from sim.machine import preload
    preload("c09")
    import checks._c09_helpers   # noqa: F401
    import models.light_stack    # noqa: F401


# ---------------------------------------------------------------------------------------------------------
# execute
# ---------------------------------------------------------------------------------------------------------
def execute(ctx, plan):    # noqa: C901  pylint: disable=too-many-statements,too-many-locals
    import copy
    from checks._c09_helpers import BatchSimPlatform
    from models.light_stack import LightStackModel, profile_lut, hw_alternatives
    from mpf.devices.light import Light
    from mpf.core.rgb_color import RGBColor

    cfg = plan["cfg"]
    bp = cfg["batch"]
    BatchSimPlatform.PARAMS = {"update_hz": cfg["hz"], "max_batch_size": bp["max_batch_size"],
                               "max_fade_ms": bp["max_fade_ms"], "cb_yield": bp["cb_yield"],
                               "hwfade_max_ms": cfg["hwfade_max_ms"]}
    prof_params = PROFILES[cfg["profile"]]
    patches = {
        "mpf": {"platforms": {"simc09": "checks._c09_helpers.BatchSimPlatform"},
                "rgbw_white_behavior": cfg["rgbw"], "default_light_hw_update_hz": cfg["hz"]},
        "light_settings": {"default_fade_ms": cfg["default_fade_ms"],
                           "color_correction_profiles": {"prof1": copy.deepcopy(prof_params)}},
        "light_player": copy.deepcopy(plan["lp"]["_global"]),     # MPF validates configs in place
    }
    if cfg["default_profile"]:
        patches["light_settings"]["default_color_correction_profile"] = "prof1"
    mode_patches = {"m1": {"light_player": copy.deepcopy(plan["lp"]["m1"])},
                    "m2": {"light_player": copy.deepcopy(plan["lp"]["m2"])}}
    sim = ctx.new_sim("c09", platform="simc09", patches=patches, mode_patches=mode_patches)
    sim.boot()
    m = sim.machine
    loop = sim.loop
    hw = m.default_platform
    assert isinstance(hw, BatchSimPlatform)
    brightness = cfg["brightness"]
    if brightness != 1.0:
        m.variables.set_machine_var("brightness", brightness)
        sim.run_quiet(0.01)
    assert abs(m.light_controller.brightness_factor - brightness) < 1e-12, m.light_controller.brightness_factor
    interval = 1.0 / cfg["hz"]
    profile_fn = profile_lut(prof_params["gamma"], tuple(prof_params["whitepoint"]), prof_params["linear_slope"],
                             prof_params["linear_cutoff"])

    models = {}
    for name, d in LIGHTS.items():
        models[name] = LightStackModel(d.get("on", (255, 255, 255)), d.get("fade", cfg["default_fade_ms"]))
        dev = m.lights[name]
        # harness self-check: the static table matches the booted machine
        assert sorted(ch for _, ch in d["ch"]) == sorted(str(x) for x in dev.get_hw_numbers()), (name, dev.get_hw_numbers())

    # -- tap: calls on Light's public API that MPF itself makes (light_player, mode stop) drive the model ----
    direct = [False]
    lp_expect = []       # expected MPF-made calls not yet seen
    lp_played = {"_global": [], "m1": [], "m2": []}     # lights with an entry of that context (for mode stop)
    mode_active = {"m1": False, "m2": False}

    def norm_color(name, color):
        if isinstance(color, str) and color == "on":
            return tuple(models[name].on_color)
        return tuple(float(x) for x in RGBColor(color).rgb)

    def mpf_call(name, call):
        now = loop.time()
        ctx.log("mpf_call", name, call, t=now)
        if call in lp_expect:
            lp_expect.remove(call)
        else:
            ctx.violation("lp_unexpected_call", call[1], "light_player/mode made an unexpected call %r at %.6f; "
                          "still expected: %r" % (call, now, lp_expect))
        mdl = models[name]
        if call[1] == "color":
            apply_color(name, call[2], call[3], call[4], call[5], now)
        else:
            apply_remove(name, call[2], call[3], now)
        del mdl

    orig_color, orig_remove = Light.color, Light.remove_from_stack_by_key

    def tap_color(self, color, fade_ms=None, priority=0, key=None, start_time=None):
        if not direct[0] and self.name in models:
            mpf_call(self.name, (self.name, "color", norm_color(self.name, color), fade_ms, priority, key))
        return orig_color(self, color, fade_ms, priority, key, start_time)

    def tap_remove(self, key, fade_ms=None):
        if not direct[0] and self.name in models:
            mpf_call(self.name, (self.name, "remove", key, fade_ms))
        return orig_remove(self, key, fade_ms)

    Light.color = tap_color
    Light.remove_from_stack_by_key = tap_remove

    # -- model application + probes ----------------------------------------------------------------
    last_change = {}

    def top_running(name, now):
        ev = models[name].color_at(now)
        return ev.kind in ("fade", "fadeout")

    def note_cmd_timing(name, now, instant):
        mdl = models[name]
        for (s, e) in mdl.running(now):
            if s < now < e:
                ctx.probe("cmd_inside_fade")
        if any(e.dest_time and abs(e.dest_time - now) <= 1e-9 for e in mdl.entries):
            ctx.probe("cmd_at_fade_end")
        if instant and top_running(name, now):
            be = LIGHTS[name]["be"]
            if be == "software":
                ctx.probe("instant_during_sw_fade")
            elif be == "batch":
                ctx.probe("instant_during_batch_fade")

    def apply_color(name, color, fade_ms, prio, key, now):
        mdl = models[name]
        k = "" if key is None else key
        eff_fade = mdl.default_fade_ms if fade_ms is None else fade_ms
        note_cmd_timing(name, now, not eff_fade)
        live = [e for e in mdl.entries if not (e.dest is None and now >= e.dest_time)]
        if any(e.priority == prio and e.key != k for e in live):
            ctx.probe("priority_tie")
        old = [e for e in live if e.key == k]
        if old:
            ctx.probe("readd_during_fadeout" if old[0].dest is None else "replace_key")
        if eff_fade:
            if any(e.priority < prio and e.key > k for e in live):
                ctx.probe("fade_over_lower_prio_greater_key")
            lvl = mdl._eval(mdl._level(prio, k), now)
            if lvl.kind in ("fade", "fadeout"):
                ctx.probe("fade_from_running_fade")
        r = mdl.color(now, color, fade_ms, prio, key)
        if r == "ignored":
            ctx.probe("ignored_lower_prio_same_key")
        last_change[name] = now
        return r

    def apply_remove(name, key, fade_ms, now):
        mdl = models[name]
        eff_fade = mdl.default_fade_ms if fade_ms is None else fade_ms
        note_cmd_timing(name, now, not eff_fade)
        live = [e for e in mdl.entries if not (e.dest is None and now >= e.dest_time)]
        tgt = [e for e in live if e.key == key]
        if tgt and tgt[0].dest is not None:
            idx = live.index(tgt[0])
            if any(e.dest is not None for e in live[:idx]):
                ctx.probe("remove_under_opaque")
            if eff_fade:
                below = mdl._eval(live[idx + 1:], now)
                if below.kind in ("fade", "fadeout"):
                    ctx.probe("fadeout_over_running_fade")
        r = mdl.remove(now, key, fade_ms)
        if r == "fadeout":
            ctx.probe("remove_with_fade")
        elif r == "fadeout_cut":
            ctx.probe("remove_fading_out_key")
        last_change[name] = now
        return r

    # -- oracles -------------------------------------------------------------------------------------
    def check_logical(name, where):
        now = loop.time()
        ev = models[name].color_at(now)
        got = tuple(m.lights[name].get_color().rgb)
        ctx.log("color", name, where, got, ev.kind, t=now)
        if ev.kind == "fade":
            ctx.probe("sample_in_fade")
        elif ev.kind == "fadeout":
            ctx.probe("sample_in_fadeout")
        tol = ev.err + 1e-6
        if all(abs(got[i] - ev.color[i]) <= tol for i in range(3)):
            return
        be = LIGHTS[name]["be"]
        detail = ("light %s (%s) at %.6f (%s): get_color()=%r, model %s +-%.2f (%s); model stack %s; SUT stack %r"
                  % (name, be, now, where, got, tuple(round(x, 2) for x in ev.color), ev.err, ev.kind,
                     models[name].describe(), m.lights[name].stack))
        if ev.seg is not None:
            a, b = ev.seg
            outside = [i for i in range(3) if got[i] < min(a[i], b[i]) - tol or got[i] > max(a[i], b[i]) + tol]
            if outside:
                ctx.violation("fade_outside_endpoints", ev.kind, "colour outside the segment between the running "
                              "fade's endpoints %r..%r: %s" % (a, b, detail))
                resync(name)
                return
        ctx.violation("logical_colour", ev.kind, detail)
        resync(name)

    def resync(name):
        """After a *known* finding: adopt the SUT's stack so that later checks are meaningful."""
        from models.light_stack import Entry
        mdl = models[name]
        mdl.entries = [Entry(e.priority, e.key, e.start_time,
                             tuple(float(x) for x in e.start_color.rgb) if e.start_color is not None else None, 1.0,
                             e.dest_time, tuple(float(x) for x in e.dest_color.rgb) if e.dest_color is not None else None)
                       for e in m.lights[name].stack]

    def read_channel(be, chan):
        if be == "direct":
            return hw.sim_lights[chan].current_brightness
        if be == "software":
            num = str(m.coils[chan].hw_driver.number)
            last = None
            for rec in reversed(hw.commands):
                if rec["num"] == num:
                    last = rec
                    break
            if last is None or last["op"] == "disable":
                return 0.0
            if last["op"] == "enable":
                return last["hold_power"]
            return ("unexpected driver command", last["op"])
        st = hw.hwfade_state.get(chan) if be == "hwfade" else hw.batch_state.get(chan)
        if st is None:
            return 0.0
        b, fade_ms, t = st
        if t + fade_ms / 1000.0 > loop.time() + 1e-9:
            # the statement speaks about the brightness last commanded; a hardware fade that was commanded late
            # (e.g. behind a slow earlier batch) and therefore ends late is not judged
            ctx.probe("hw_fade_ends_late")
        return b

    def hw_settled(name, now):
        """Mid-run: has this light been quiet long enough that its hardware must show the final colour?
        direct channels are commanded synchronously (but the refresh at the end of a fade-out comes from a delay
        callback); hwfade / software-fade / batched channels need their last tick.  Both are only guaranteed when
        the loop has run without a stall since (a stall delays MPF's own timers as well, and everything that
        became due meanwhile is still being processed, in deadline order, at the landing instant)."""
        be = LIGHTS[name]["be"]
        quiet_since = max(models[name].last_fade_end(0.0), last_change.get(name, 0.0))
        if loop.stall_log:
            quiet_since = max(quiet_since, loop.stall_log[-1][1])
        if be == "direct":
            # strictly later: at the very instant a fade-out ends its removal callback may still be pending
            return quiet_since < now
        if be == "hwfade":
            return quiet_since + cfg["hwfade_max_ms"] / 1000.0 + 0.002 < now
        if be == "software":
            return quiet_since + interval + 1e-6 < now
        return quiet_since + 4 * interval + 0.01 + (bp["cb_yield"] or 0.0) * 20 < now

    def check_hw(where, only_settled=False):
        now = loop.time()
        for name, d in LIGHTS.items():
            if only_settled:
                if not hw_settled(name, now):
                    continue
                ctx.probe("hw_check_midrun_" + d["be"])
            ev = models[name].color_at(now)
            assert ev.kind in ("static", "off"), (name, ev.kind, models[name].describe(), now)
            logical = tuple(int(round(x)) for x in ev.color)
            has_prof = bool(d.get("prof") or cfg["default_profile"])
            roles = [r for r, _ in d["ch"]]
            alts = hw_alternatives(logical, brightness, profile_fn if has_prof else None, roles, cfg["rgbw"])
            got = {r: read_channel(d["be"], chn) for r, chn in d["ch"]}
            ctx.log("hw", name, where, sorted((r, v if isinstance(v, tuple) else round(v, 6)) for r, v in got.items()),
                    t=now)
            if any(logical):
                ctx.probe("hw_check_nonzero")
                if has_prof or brightness != 1.0:
                    ctx.probe("corrected_hw_check")
            ok = False
            if not any(isinstance(v, tuple) for v in got.values()):
                for alt in alts:
                    if all(abs(got[r] - alt[r]) <= TOL_B for r in roles):
                        ok = True
                        break
            if not ok:
                lg = tuple(m.lights[name].get_color().rgb)
                ctx.violation("hw_final_" + d["be"], "logical_ok" if lg == logical else "logical_differs",
                              "light %s (%s) at %.6f (%s): all fades finished (last change %.6f), logical colour "
                              "model=%r get_color()=%r, brightness factor %s, profile %s, rgbw %s; hardware channels "
                              "show %r, allowed %r; model stack %s; SUT stack %r; _last_fade_target %r"
                              % (name, d["be"], now, where, last_change.get(name, -1), logical, lg, brightness,
                                 prof_params if has_prof else None, cfg["rgbw"], got, alts,
                                 models[name].describe(), m.lights[name].stack, m.lights[name]._last_fade_target))

    def batch_listener(rec):
        ctx.log("batch", rec["first"], rec["n"], rec["fade_ms"], [round(v, 6) for v in rec["values"]], t=rec["t"])
        chain, idx = rec["first"].split("-")
        want = ["%s-%d" % (chain, int(idx) + k) for k in range(rec["n"])]
        if rec["objs"] != want:
            ctx.violation("batch_grouping", "not sequential", "batch callback got channels %r starting at %s: "
                          "not sequential" % (rec["objs"], rec["first"]))
        if rec["n"] > bp["max_batch_size"]:
            ctx.violation("batch_grouping", "too large", "batch of %d > max_batch_size %d" % (rec["n"], bp["max_batch_size"]))
        if any(not (-1e-9 <= v <= 1 + 1e-9) for v in rec["values"]):
            ctx.violation("batch_grouping", "range", "brightness outside 0..1: %r" % (rec["values"],))
        if hw.batch_calls_in_flight or rec["n"] < 3:
            ctx.probe("batch_multi_callback")

    hw.batch_listeners.append(batch_listener)

    def driver_listener(drv, rec):
        ctx.log("drv", rec["num"], rec["op"], None if rec["hold_power"] is None else round(rec["hold_power"], 6), t=rec["t"])

    hw.driver_listeners.append(driver_listener)

    def light_listener(light, rec):
        ctx.log("set_fade", rec["num"], round(rec["start_b"], 6), round(rec["start_t"], 6), round(rec["target_b"], 6),
                round(rec["target_t"], 6), t=rec["t"])

    hw.light_listeners.append(light_listener)

    def hwfade_listener(rec):
        ctx.log("hwfade", rec["num"], round(rec["brightness"], 6), rec["fade_ms"], t=rec["t"])

    hw.hwfade_listeners.append(hwfade_listener)

    # -- operations ------------------------------------------------------------------------------------
    def lp_context(event):
        for c, sec in plan["lp"].items():
            if event in sec:
                return c
        raise KeyError(event)

    def expect_lp(event):
        c = lp_context(event)
        if c != "_global" and not mode_active[c]:
            return
        key = "%s.light_player" % c
        for light, s in plan["lp"][c][event].items():
            fade = int(s["fade"][:-2]) if "fade" in s else None
            if s["color"] == "stop":
                ctx.probe("lp_stop")
                lp_expect.append((light, "remove", key, fade))
                if light in lp_played[c]:
                    lp_played[c].remove(light)
            else:
                col = norm_color(light, s["color"])
                lp_expect.append((light, "color", col, fade, MODE_PRIO[c] + s["priority"], key))
                if light not in lp_played[c]:
                    lp_played[c].append(light)
        ctx.probe("lp_event")

    def do_op(op):
        now = loop.time()
        kind = op["op"]
        if lp_expect:
            ctx.violation("lp_missing_call", lp_expect[0][1], "light_player/mode did not make the expected calls %r "
                          "(now %.6f)" % (lp_expect, now))
            del lp_expect[:]
        if loop.stall_log and abs(loop.stall_log[-1][1] - now) <= 1e-9:
            for nm in plan["active"]:
                if any(s < loop.stall_log[-1][1] and e > loop.stall_log[-1][0] for s, e in models[nm].running(loop.stall_log[-1][0])):
                    ctx.probe("stall_inside_fade")
        name = op.get("light")
        ctx.log("op", kind, name, op.get("key"), op.get("prio"), op.get("fade"), op.get("color"), op.get("event"),
                op.get("mode"), op.get("action"), t=now)
        if name is not None:
            check_logical(name, "before " + kind)
            dev = m.lights[name]
            if "live_key" in op:
                ks = sorted(models[name].keys(now))
                if ks:
                    op = dict(op, key=ks[op["live_key"] % len(ks)])
                    ctx.log("live_key", op["key"], t=now)
        if kind == "color":
            col = op["color"]
            arg = [list(col), _hex(col), RGBColor(col)][op["form"]]
            # key=None is the documented default and means the same entry as key ""
            kw_key = None if (op["key"] == "" and op["form"] == 1) else op["key"]
            r = apply_color(name, col, op["fade"], op["prio"], op["key"], now)
            direct[0] = True
            try:
                dev.color(arg, fade_ms=op["fade"], priority=op["prio"], key=kw_key)
            finally:
                direct[0] = False
        elif kind == "on":
            col = models[name].on_color
            if op["brightness"] is not None:
                col = tuple(float(int(x * (op["brightness"] / 255))) for x in col)
            apply_color(name, col, op["fade"], op["prio"], op["key"], now)
            direct[0] = True
            try:
                dev.on(brightness=op["brightness"], fade_ms=op["fade"], priority=op["prio"], key=op["key"])
            finally:
                direct[0] = False
        elif kind == "off":
            apply_color(name, (0, 0, 0), op["fade"], op["prio"], op["key"], now)
            direct[0] = True
            try:
                dev.off(fade_ms=op["fade"], priority=op["prio"], key=op["key"])
            finally:
                direct[0] = False
        elif kind == "remove":
            apply_remove(name, op["key"], op["fade"], now)
            direct[0] = True
            try:
                dev.remove_from_stack_by_key(op["key"], op["fade"])
            finally:
                direct[0] = False
        elif kind == "clear":
            if models[name].keys(now):
                ctx.probe("clear_with_entries")
            models[name].clear(now)
            last_change[name] = now
            dev.clear_stack()
        elif kind == "sample":
            for nm in LIGHT_NAMES:
                check_logical(nm, "sample")
            check_hw("sample", only_settled=True)
        elif kind == "lp":
            expect_lp(op["event"])
            sim.post(op["event"])
        elif kind == "mode":
            md = m.modes[op["mode"]]
            if op["action"] == "start" and not mode_active[op["mode"]]:
                assert not md.active and not md._starting and not md.stopping
                md.start()
                mode_active[op["mode"]] = True
            elif op["action"] == "stop" and mode_active[op["mode"]]:
                assert md.active
                key = "%s.light_player" % op["mode"]
                for light in lp_played[op["mode"]]:
                    lp_expect.append((light, "remove", key, None))
                    ctx.probe("mode_stop_with_lights")
                lp_played[op["mode"]] = []
                md.stop()
                mode_active[op["mode"]] = False
        if name is not None:
            check_logical(name, "after " + kind)
            ev = models[name].color_at(now)
            ctx.state(LIGHTS[name]["be"], kind, ev.kind, len(models[name].entries))

    # -- op chain: each op schedules the next one so that "when" refers to the live model ----------------
    ops = plan["ops"]
    idx = [0]
    state = {"done": False, "checkpoint": False, "min_next": 0.0}

    def resolve_when(op):
        w = op["when"]
        now = loop.time()
        t = now
        if w[0] == "rel":
            t = now + w[1]
        elif w[0] in ("fade", "end"):
            pref = models[op["light"]].running(now) if op.get("light") else []
            fades = (pref or sorted(f for nm in plan["active"] for f in models[nm].running(now)) or
                     sorted(f for nm in LIGHT_NAMES for f in models[nm].running(now)))
            if fades:
                s, e = fades[w[1] % len(fades)]
                if w[0] == "fade":
                    t = max(now, s + (e - s) * w[2])
                else:
                    t = max(now, e + w[2])
            else:
                t = now + 0.01
        elif w[0] == "timer":
            pend = [x for x in loop.pending_timer_times() if now < x < now + 3.0]
            if pend:
                t = pend[w[1] % len(pend)]
                ctx.probe("cmd_on_timer")
            else:
                t = now + 0.02
        return max(t, state["min_next"])

    def schedule_next():
        if idx[0] >= len(ops):
            state["done"] = True
            return
        op = ops[idx[0]]
        if op["op"] == "checkpoint":
            state["checkpoint"] = True       # handled by the main loop (quiet settle + hardware check)
            return
        sim.at(resolve_when(op), run_op)

    def run_op():
        op = ops[idx[0]]
        idx[0] += 1
        do_op(op)
        # a mode start/stop runs through queue events (several loop iterations at the same instant): keep the
        # next stimulus out of that instant
        state["min_next"] = loop.time() + 0.001 if op["op"] == "mode" else 0.0
        schedule_next()

    def settle(where):
        """All fades finished + one software-fade / batch interval (stalls off), then compare the hardware."""
        guard = 0
        while True:
            now = loop.time()
            end = max(models[nm].last_fade_end(0.0) for nm in LIGHT_NAMES)
            extra = 3 * interval + 0.01 + (bp["cb_yield"] or 0.0) * 20
            sim.run_quiet(max(end + extra - now, extra))
            now = loop.time()
            if max(models[nm].last_fade_end(0.0) for nm in LIGHT_NAMES) <= now - extra + 1e-9:
                break
            guard += 1
            assert guard < 50
        if lp_expect:
            ctx.violation("lp_missing_call", lp_expect[0][1], "light_player/mode did not make the expected calls %r"
                          % (lp_expect,))
            del lp_expect[:]
        for nm in LIGHT_NAMES:
            check_logical(nm, where)
        check_hw(where)
        ctx.probe("checkpoint")

    schedule_next()
    guard = 0
    while not state["done"]:
        if state["checkpoint"]:
            state["checkpoint"] = False
            ctx.log("op", "checkpoint", t=loop.time())
            idx[0] += 1
            settle("checkpoint")
            schedule_next()
            continue
        sim.run(0.25)
        guard += 1
        if guard > 2000:
            raise AssertionError("op chain did not finish")
    settle("final")
