"""C10 - Hardware switch-to-coil rules match the enabled devices exactly.

SUT: Flipper (five wirings + one with normally-closed button and EOS switches), AutofireCoil (plain, delayed pulse, timeout protection, reversed NC switch,
shared switch), Kickback, PlatformController (rule creation/removal, PSU switch handlers, software EOS
repulse manager), ball search, the stock tilt / service / game / attract modes - on SimPlatform, whose rule
table counts installs/clears instead of asserting.

Oracle (from the statement): a reference model of "who asked last" per device (enable/disable requests in
the order MPF processed them) plus a table wiring -> rules.  At every quiescent point the installed-rule
multiset (with rule types) must equal the union of the rules of the enabled devices, the PSU / software-EOS
switch handlers must be present iff the rule is, and a disabled flipper must not keep a coil energised.
"""
import functools
import inspect

from sim.harness import draw_knobs
from checks._c10_helpers import install_time_grid

ID = "C10"
LEVEL = "exploration"
RUNS = {"quick": 1600, "thorough": 50000}
WALL_CAP = {"quick": 120, "thorough": 3000}
RULE = ("one case = one generated history (8-45 ops) of enable/disable requests (private events, direct calls, "
        "bursts of both inside one tick), sw_flip/sw_release, cabinet button / EOS switch activity, autofire "
        "switch storms, start button, drains, tilt warnings / tilt / slam tilt, service enter / exit, forced and "
        "natural ball search, end_ball / end_game events, stimuli armed to fire right after a named MPF event was posted "
        "(service / tilt / drain / requests racing with ball_starting, ball_will_end, mode_game_stopping, ...), placed at relative times or exactly on (+-1 ms) a "
        "pending loop timer, on a per-run configuration (EOS repulse on/off, timeout protection parameters, "
        "kickback self-disable, ball search on/off and hold time, tilt settle time, balls per game) under a "
        "seeded scheduler (stalls, same-instant tie permutations); non-trivial = reached at least one reach "
        "probe; distinct = distinct sequence of observed event kinds")
PROBES = ["enable_while_enabled", "disable_while_disabled", "enable_and_disable_same_tick", "sw_flip_enabled",
          "disable_while_sw_flipped", "timeout_tripped", "timeout_reenabled", "disable_during_timeout",
          "op_on_timer", "ball_search_started", "ball_search_flip", "tilt", "slam_tilt", "service_entered",
          "service_in_game", "game_ended", "lifecycle_disable_with_rules", "eos_repulse",
          "disable_with_button_held", "disable_with_repulse_hold", "kickback_fired", "ball_started_enable",
          "rules_checked_nonempty", "outside_play_checked", "reaction_fired", "final_clean_checked",
          "tilt_while_ball_starting"]
REAL = ["mpf.devices.flipper.Flipper", "mpf.devices.autofire.AutofireCoil", "mpf.devices.kickback.Kickback",
        "mpf.core.platform_controller.PlatformController + SoftwareEosRepulseManager",
        "mpf.core.switch_controller.SwitchController", "mpf.devices.driver.Driver", "mpf.core.ball_search.BallSearch",
        "mpf.modes.tilt / service / game / attract (stock modes)", "mpf.core.service_controller.ServiceController",
        "mpf.core.events.EventManager", "mpf.core.device_manager (control events)", "MachineController boot/reset"]
STUBS = ["event loop (SimLoop: virtual time, stalls, tie order)", "clock (SimClock)",
         "SimPlatform (virtual platform recording rules/driver commands; does not act on rules)",
         "ball handling: device-less game as in MpfFakeGameTestCase (playfield.add_ball replaced, drains are "
         "posted as ball_drain relay events)", "in-memory data manager"]
ASSUMPTIONS = ["call_soon FIFO order is kept (asyncio guarantees it)",
               "the platform does not switch a driver off by itself when a rule is cleared (DriverPlatform."
               "clear_hw_rule only promises to remove the switch/driver link)",
               "no two devices share one (switch, coil) pair",
               "cabinet physics: an EOS switch can close only while its flipper is powered (button held with "
               "the rule installed, or coil held by software); it opens 5 ms after the button is released"]
STATE_ABSTRACTION = "(enabled flag per device, game/ball/tilt/service phase, ball search running)"
TECHNIQUE = "deterministic simulation, model-based invariant checking at quiescent points, config swarm"

# ---------------------------------------------------------------------------------------------
# static description of machines/c10 (mirrors config.yaml; option values come from the plan)

FLIPPERS = {
    "f1": {"main": "c_f1_main", "hold": None, "sw": "s_f1", "eos": None},
    "f2": {"main": "c_f2_main", "hold": "c_f2_hold", "sw": "s_f2", "eos": None},
    "f3": {"main": "c_f3_main", "hold": "c_f3_hold", "sw": "s_f3", "eos": "s_f3_eos"},
    "f4": {"main": "c_f4_main", "hold": None, "sw": "s_f4", "eos": "s_f4_eos"},
    "f5": {"main": "c_f5_main", "hold": "c_f5_hold", "sw": "s_f5", "eos": "s_f5_eos"},
    "f6": {"main": "c_f6_main", "hold": None, "sw": "s_f6", "eos": "s_f6_eos"},      # NC button, NC EOS
}
# normally-closed switches of the cabinet world: driven through raw platform reports (hw state 0 = active)
NC_RAW = {"s_f6", "s_f6_eos"}
AUTOFIRES = {
    "a1": {"coil": "c_a1", "sw": "s_a1", "delay": False},
    "a2": {"coil": "c_a2", "sw": "s_a2", "delay": True},
    "a3": {"coil": "c_a3", "sw": "s_a3", "delay": False},
    "a4": {"coil": "c_a4", "sw": "s_a4", "delay": False},
    "a5": {"coil": "c_a5", "sw": "s_a1", "delay": False},
}
KICKBACKS = {"k1": {"coil": "c_k1", "sw": "s_k1", "delay": False}}
DEVS = list(FLIPPERS) + list(AUTOFIRES) + list(KICKBACKS)
BALL_STARTED_DEVS = list(FLIPPERS) + list(AUTOFIRES)      # stock enable event; kickbacks have none
HIT_SWITCHES = ["s_a1", "s_a2", "s_a3", "s_a4", "s_k1"]
REACT_EVENTS = ["ball_will_start", "ball_starting", "ball_ended", "player_turn_started", "game_started",
                "ball_will_end", "ball_ending", "tilt", "tilt_clear", "service_mode_entered", "mode_game_stopping",
                "ball_search_started"]


def expected_rules(dev, cfg):
    """(switch name, coil name, rule type) a device installs while enabled - from the documented wiring table
    (flipper.py enable() docstring: rules A-H) and the autofire documentation."""
    if dev in FLIPPERS:
        f = FLIPPERS[dev]
        if f["eos"]:
            if f["hold"]:
                t = "pulse_on_hit_and_release_and_disable"                    # A + E
                return [(f["sw"], f["main"], t), (f["eos"], f["main"], t),
                        (f["sw"], f["hold"], "pulse_on_hit_and_enable_and_release")]   # D
            t = "pulse_on_hit_and_enable_and_release_and_disable"              # A + H
            return [(f["sw"], f["main"], t), (f["eos"], f["main"], t)]
        if f["hold"]:
            return [(f["sw"], f["main"], "pulse_on_hit_and_release"),          # B
                    (f["sw"], f["hold"], "pulse_on_hit_and_enable_and_release")]       # D
        return [(f["sw"], f["main"], "pulse_on_hit_and_enable_and_release")]   # C
    a = AUTOFIRES.get(dev) or KICKBACKS[dev]
    return [(a["sw"], a["coil"], "delayed_pulse_on_hit" if a["delay"] else "pulse_on_hit")]


# ---------------------------------------------------------------------------------------------
# plan

DTS = [0.0, 0.0, 0.001, 0.004, 0.01, 0.03, 0.1, 0.1, 0.25, 0.5, 0.5, 1.0, 2.1, 2.6]


def _gen_action(ch):
    """One request that can be part of a same-tick burst."""
    kind = ch.weighted("act", [("ev_enable", 4), ("ev_disable", 4), ("call_enable", 2), ("call_disable", 2),
                               ("flip", 2), ("release", 1.5)])
    if kind in ("flip", "release"):
        return {"a": kind, "dev": ch.pick("fdev", list(FLIPPERS)), "via": ch.pick("via", ["event", "call"])}
    return {"a": kind, "dev": ch.pick("dev", DEVS)}


def _gen_op(ch):
    kind = ch.weighted("op", [
        ("burst", 10), ("btn", 4), ("eos", 2), ("cradle", 3), ("hit", 3), ("storm", 3), ("start", 4), ("drain", 3),
        ("tilt_warning", 1.5), ("tilt", 1.5), ("slam_tilt", 0.7), ("service", 2), ("bs_start", 1.5),
        ("pf_switch", 1), ("end_ball", 0.7), ("end_game", 0.7), ("wait", 1), ("react", 5)])
    op = {"op": kind}
    if kind == "react":
        # a stimulus that coincides with a state change inside MPF: armed now, fires (once) in the loop iteration
        # after the named event has been posted (or 1 ms later)
        op["on"] = ch.pick("ron", REACT_EVENTS)
        op["delay"] = ch.pick("rdelay", [0.0, 0.0, 0.001])
        inner = ch.weighted("rdo", [("service", 5), ("tilt", 2), ("slam_tilt", 1), ("start", 1), ("drain", 2),
                                    ("end_game", 1), ("end_ball", 1), ("burst", 4)])
        op["do"] = {"op": inner}
        if inner == "burst":
            op["do"]["acts"] = [_gen_action(ch) for _ in range(1 + ch.choice("rnb", 2))]
        return op
    if kind == "burst":
        n = ch.weighted("nburst", [(1, 5), (2, 3), (3, 2), (4, 1)])
        op["acts"] = [_gen_action(ch) for _ in range(n)]
        if n > 1 and ch.flag("same_dev", 0.5):
            d = op["acts"][0]["dev"]
            for a in op["acts"][1:]:
                if a["a"] in ("flip", "release"):
                    if d in FLIPPERS:
                        a["dev"] = d
                else:
                    a["dev"] = d
    elif kind == "btn":
        op["dev"] = ch.pick("bdev", list(FLIPPERS))
        op["down"] = ch.flag("down", 0.55)
    elif kind == "eos":
        op["dev"] = ch.pick("edev", ["f3", "f4", "f4", "f5", "f5", "f6", "f6"])
        op["close"] = ch.flag("close", 0.55)
    elif kind == "cradle":
        op["dev"] = ch.pick("cdev", ["f4", "f5", "f3", "f4", "f6", "f6"])
        op["knock"] = not ch.flag("noknock", 0.3)
    elif kind == "hit":
        op["sw"] = ch.pick("hsw", HIT_SWITCHES)
    elif kind == "storm":
        op["sw"] = ch.pick("ssw", ["s_a3", "s_a3", "s_k1", "s_a1"])
        op["n"] = 2 + ch.choice("sn", 6)
        op["gap"] = ch.pick("sgap", [0.0, 0.0005, 0.002, 0.02])
    return op


def plan(ch, tier):
    knobs = draw_knobs(ch)
    cfg = {
        "f3_repulse": ch.flag("cfg.f3_repulse", 0.4),
        "f4_repulse": not ch.flag("cfg.f4_norepulse", 0.25),
        "f5_repulse": not ch.flag("cfg.f5_norepulse", 0.25),
        "f6_repulse": not ch.flag("cfg.f6_norepulse", 0.2),
        "eos_ms": ch.pick("cfg.eos_ms", [100, 20, 500]),
        "ball_search": ch.flag("cfg.ball_search", 0.5),
        "bs_flippers": [f for f in FLIPPERS if ch.flag("cfg.bs_flip", 0.5)],
        "bs_hold": ch.pick("cfg.bs_hold", ["1s", "100ms", "300ms"]),
        "bs_action": ch.pick("cfg.bs_action", ["new_ball", "end_ball", "end_game"]),
        "a3_watch": ch.pick("cfg.a3_watch", ["20s", "100s", "2s"]),
        "a3_hits": ch.pick("cfg.a3_hits", [3, 2, 5]),
        "a3_disable": ch.pick("cfg.a3_disable", ["500ms", "100ms", "2s"]),
        "k1_timeout": ch.flag("cfg.k1_timeout", 0.4),
        "k1_self_disable": not ch.flag("cfg.k1_keep", 0.4),
        "settle": ch.pick("cfg.settle", ["1s", "300ms", "2s"]),
        "warnings": ch.pick("cfg.warnings", [2, 1, 3]),
        "balls": ch.pick("cfg.balls", [2, 1, 3]),
    }
    n = 8 + ch.choice("nops", 38)
    ops = []
    for _ in range(n):
        op = _gen_op(ch)
        w = ch.weighted("when", [("rel", 5), ("timer", 3)])
        if w == "rel":
            op["when"] = ["rel", ch.pick("dt", DTS)]
        else:
            op["when"] = ["timer", ch.choice("tidx", 5), ch.pick("tdelta", [0.0, 0.0, 0.0, -0.001, 0.001])]
        ops.append(op)
    # make sure most histories contain a game
    if ch.flag("early_start", 0.8):
        ops.insert(ch.choice("start_pos", 4), {"op": "start", "when": ["rel", 0.01]})
    return {"knobs": knobs, "cfg": cfg, "ops": ops}


def warm():
    from sim.machine import preload
    preload("c10")


# ---------------------------------------------------------------------------------------------
# execute

def _patches(cfg):
    fl = {}
    for f in FLIPPERS:
        fl[f] = {"include_in_ball_search": f in cfg["bs_flippers"], "ball_search_hold_time": cfg["bs_hold"]}
    for f in ("f3", "f4", "f5", "f6"):
        fl[f]["repulse_on_eos_open"] = cfg[f + "_repulse"]
        fl[f]["eos_active_ms_before_repulse"] = "%dms" % cfg["eos_ms"]
    p = {
        "flippers": fl,
        "autofire_coils": {"a3": {"timeout_watch_time": cfg["a3_watch"], "timeout_max_hits": cfg["a3_hits"],
                                  "timeout_disable_time": cfg["a3_disable"]}},
        "kickbacks": {"k1": {}},
        "playfields": {"playfield": {"enable_ball_search": cfg["ball_search"],
                                     "ball_search_failed_action": cfg["bs_action"]}},
        "game": {"balls_per_game": cfg["balls"]},
    }
    if cfg["k1_timeout"]:
        p["kickbacks"]["k1"].update({"timeout_watch_time": "50s", "timeout_max_hits": 2,
                                     "timeout_disable_time": "300ms"})
    if not cfg["k1_self_disable"]:
        p["kickbacks"]["k1"]["disable_events"] = "ball_will_end, service_mode_entered, c10_disable_k1"
    return p


def _secs(s):
    s = str(s)
    if s.endswith("ms"):
        return float(s[:-2]) / 1000.0
    if s.endswith("s"):
        return float(s[:-1])
    return float(s) / 1000.0


def execute(ctx, plan):
    cfg = plan["cfg"]
    sim = ctx.new_sim("c10", platform="simhw", patches=_patches(cfg),
                      mode_patches={"tilt": {"tilt": {"settle_time": cfg["settle"],
                                                      "warnings_to_tilt": cfg["warnings"]}}})
    # timer deadlines on a 1 ns grid: frozen simulated time + float noise would otherwise let MPF's "not yet,
    # re-arm" loops (timed switch handlers, tilt settle time) spin for ever at one instant (see the helper)
    install_time_grid(sim.loop)
    sim.boot()
    from mpf.core.platform_controller import PlatformController, SoftwareEosRepulseManager
    m = sim.machine
    loop = sim.loop
    hw = sim.hw
    sc = m.switch_controller
    pf = m.playfield

    devobj = {}
    for d in FLIPPERS:
        devobj[d] = m.flippers[d]
    for d in AUTOFIRES:
        devobj[d] = m.autofire_coils[d]
    for d in KICKBACKS:
        devobj[d] = m.kickbacks[d]
    swnum = {n: str(s.hw_switch.number) for n, s in m.switches.items()}
    coilnum = {n: str(c.hw_driver.number) for n, c in m.coils.items()}
    swname = {v: k for k, v in swnum.items()}
    coilname = {v: k for k, v in coilnum.items()}
    exp_rules = {d: expected_rules(d, cfg) for d in DEVS}
    repulse = {f: cfg[f + "_repulse"] for f in ("f3", "f4", "f5", "f6")}
    # timeout protection: (watch seconds as configured, max hits)
    timeout = {"a3": (_secs(cfg["a3_watch"]), cfg["a3_hits"])}
    if cfg["k1_timeout"]:
        timeout["k1"] = (50.0, 2)
    dev_switches = sorted({r[0] for d in DEVS for r in exp_rules[d]})

    # ---- model: who asked last -------------------------------------------------------------
    model = {d: False for d in DEVS}           # False / True / "either" (timeout protection may have tripped)
    hits = {d: [] for d in timeout}            # processed activations of the device's switch

    # Second, absolute oracle for the last sentence of the statement, independent of ball_will_end /
    # service_mode_entered being posted at all.  An "episode" starts whenever service mode is entered (seen through
    # ServiceController.is_in_service()), a ball in play is tilted (event tilt) or a ball ends (ball_will_end; if
    # MPF never posted it for this ball, the queue event ball_ending that follows it).  While the machine is in
    # service, tilted, between balls or without a game, a device may be enabled only on behalf of a private
    # enable request processed in the current episode (own[d] == episode); ball_started hands ownership to the
    # game lifecycle (own[d] = None).
    # Relaxation: "the machine tilts" is read as "a ball in play is tilted".  A tilt between two balls ends no
    # ball, so MPF posts no ball_will_end until the next ball has started; a device enabled by a private request
    # in that gap is not judged.  Likewise "no game is running" is reached through the last ball's end; a private
    # enable between that ball end and the end of the game is the configuration's own doing.
    episode = [0]
    last_phase = {"service": False}
    play = {"ball": False, "tilt": False, "end_seen": False}
    own = {d: None for d in DEVS}

    def update_phase():
        g = m.game
        if g is None:
            play["ball"] = False
            play["starting"] = False
        if not (g and g.tilted):
            play["tilt"] = False
        service = bool(m.service.is_in_service())
        if service and not last_phase["service"]:
            episode[0] += 1
        last_phase["service"] = service
        return {"service": service, "game": g is not None, "tilted": play["tilt"], "ball": play["ball"]}

    def m_enable(d, why):
        update_phase()
        if devobj[d]._enabled:
            ctx.probe("enable_while_enabled")
        own[d] = None if why == "ball_started" else episode[0]
        model[d] = True

    def m_disable(d, why):
        update_phase()
        own[d] = None
        if not devobj[d]._enabled:
            ctx.probe("disable_while_disabled")
        else:
            if why in ("ball_will_end", "service_mode_entered"):
                ctx.probe("lifecycle_disable_with_rules")
            if d in FLIPPERS:
                if devobj[d]._sw_flipped:
                    ctx.probe("disable_while_sw_flipped")
                if world["btn"][d]:
                    ctx.probe("disable_with_button_held")
                    if hw.sim_drivers[coilnum[FLIPPERS[d]["main"]]].sim_enabled and not devobj[d]._sw_flipped:
                        ctx.probe("disable_with_repulse_hold")
        if d in timeout and devobj[d].delay.check("_timeout_enable_delay"):
            ctx.probe("disable_during_timeout")
        model[d] = False

    def on_event(name, fn):
        # our handler runs inside the same event dispatch as the devices' control handlers, so at every
        # quiescent point the model has seen exactly the requests MPF has processed
        # (high priority: the probes in m_enable / m_disable look at the device state before the request)
        m.events.add_handler(name, fn, priority=1000000)

    def h_ball_started(**kwargs):
        ctx.log("ev", "ball_started", t=loop.time())
        ctx.probe("ball_started_enable")
        phase["ball"] = True
        update_phase()
        play["ball"] = True
        play["end_seen"] = False
        if play.pop("tilt_pending", False) and m.game is not None and m.game.tilted:
            play["tilt"] = True
            episode[0] += 1
        for d in BALL_STARTED_DEVS:
            m_enable(d, "ball_started")

    def h_lifecycle_disable(why):
        def h(**kwargs):
            ctx.log("ev", why, t=loop.time())
            if why == "ball_will_end":
                phase["ball"] = False
                update_phase()
                play["ball"] = False
                play["end_seen"] = True
                episode[0] += 1
            if why == "service_mode_entered":
                ctx.probe("service_entered")
                phase["ball"] = False
                # the operator takes the ball out (MpfFakeGameTestCase.stop_game does the same)
                pf.balls = 0
                pf.available_balls = 0
            for d in DEVS:
                m_disable(d, why)
        return h

    on_event("ball_started", h_ball_started)
    on_event("ball_will_end", h_lifecycle_disable("ball_will_end"))
    on_event("service_mode_entered", h_lifecycle_disable("service_mode_entered"))
    for d in DEVS:
        on_event("c10_enable_" + d, functools.partial(lambda dd, **kwargs: m_enable(dd, "event"), d))
        on_event("c10_disable_" + d, functools.partial(lambda dd, **kwargs: m_disable(dd, "event"), d))

    def h_k1_fired(**kwargs):
        ctx.probe("kickback_fired")
        ctx.log("ev", "kickback_k1_fired", t=loop.time())
        if cfg["k1_self_disable"]:
            m_disable("k1", "fired")
    on_event("kickback_k1_fired", h_k1_fired)

    def h_game_ended(**kwargs):
        ctx.probe("game_ended")
        ctx.log("ev", "game_ended", t=loop.time())
        pf.balls = 0
        pf.available_balls = 0
    on_event("game_ended", h_game_ended)

    def note(name, probe=None):
        def h(**kwargs):
            if probe:
                ctx.probe(probe)
            ctx.log("ev", name, t=loop.time())
        on_event(name, h)

    def h_tilt(**kwargs):
        ctx.probe("tilt")
        ctx.log("ev", "tilt", phase["ball"], t=loop.time())
        update_phase()
        # a ball counts as "in play" for a tilt from ball_will_start on: a tilt that lands while the ball is still
        # starting (somebody holds ball_starting) must end that ball as soon as it has started
        if play["ball"]:
            play["tilt"] = True
            episode[0] += 1
        elif play.get("starting"):
            # judged once the ball has started: MPF ends it right away (ball_started, then ball_will_end in the same
            # cascade), so at the next quiescent point nothing may be enabled on behalf of the game
            play["tilt_pending"] = True
            ctx.probe("tilt_while_ball_starting")
    on_event("tilt", h_tilt)

    def h_ball_will_start(**kwargs):
        update_phase()
        play["starting"] = True
    on_event("ball_will_start", h_ball_will_start)

    def h_ball_ending(**kwargs):
        update_phase()
        play["ball"] = False
        play["starting"] = False
        play.pop("tilt_pending", None)
        if not play["end_seen"]:
            # MPF went into ball_ending without having posted ball_will_end for this ball
            episode[0] += 1
        play["end_seen"] = False
    on_event("ball_ending", h_ball_ending)
    note("slam_tilt", "slam_tilt")

    def h_tilt_clear(**kwargs):
        ctx.log("ev", "tilt_clear", t=loop.time())
        play["tilt"] = False       # a new tilt in the same instant (game.tilted True again) is a new tilt
    on_event("tilt_clear", h_tilt_clear)
    note("ball_search_started", "ball_search_started")
    note("ball_search_stopped")
    note("service_mode_exited")

    import os
    if os.environ.get("C10_DEBUG"):        # developer aid: trace every posted event (never on in normal runs)
        from sim.tap import tap_events
        tap_events(sim, lambda name, ev_type, cb, kw: ctx.log("dbg", name, ev_type, t=loop.time()))

    reactions = []

    def on_posted(name, ev_type, cb, kw):
        # observation only: arm the stimulus, it runs as an ordinary loop callback after the post
        for r in list(reactions):
            if r[0] == name:
                reactions.remove(r)
                ctx.probe("reaction_fired")
                ctx.log("react", name, r[1]["op"], t=loop.time())
                if r[2] > 0:
                    sim.after(r[2], do_op, r[1])
                else:
                    loop.call_soon(do_op, r[1])
    from sim.tap import tap_events as _tap
    _tap(sim, on_posted)

    phase = {"ball": False}
    world = {"btn": {f: False for f in FLIPPERS}, "eos": {f: False for f in FLIPPERS}}

    # ---- device-less game -------------------------------------------------------------------
    def fake_add_ball(**kwargs):
        pf.balls += 1
        pf.available_balls += 1
        return True
    pf.add_ball = fake_add_ball
    m.ball_controller.num_balls_known = 3

    # ---- platform observation: every set / clear is judged immediately -----------------------
    installed = {}      # (switch num, coil num) -> [rule types]

    def on_rule(rec):
        key = (rec["switch"], rec["coil"])
        names = (swname.get(key[0], key[0]), coilname.get(key[1], key[1]))
        ctx.log("rule", rec["kind"], names[0], names[1], rec["type"], t=rec["t"])
        if rec["kind"] == "set":
            lst = installed.setdefault(key, [])
            lst.append(rec["type"])
            if len(lst) > 1:
                # "enabling installs each rule once"
                ctx.violation("double_install", "%s->%s" % names,
                              "rule %s -> %s (%s) installed while already installed (%r) at %.6f"
                              % (names[0], names[1], rec["type"], lst, rec["t"]))
                lst.pop()        # known finding: resync
        else:
            lst = installed.get(key)
            if not lst:
                ctx.violation("clear_missing", "%s->%s" % names,
                              "rule %s -> %s cleared at %.6f although it is not installed" % (names + (rec["t"],)))
            else:
                lst.pop()
                if not lst:
                    del installed[key]
    hw.rule_listeners.append(on_rule)

    def on_driver(drv, rec):
        name = coilname.get(rec["num"], rec["num"])
        ctx.log("drv", name, rec["op"], t=rec["t"])
    hw.driver_listeners.append(on_driver)

    # ---- handler registry scan ------------------------------------------------------------------
    def scan_handlers():
        psu = {}          # (switch, coil) -> count
        eos = {}          # switch -> {manager index: count}
        mgrs = []
        for sw in dev_switches:
            sobj = m.switches[sw]
            for state in (0, 1):
                for entry in sc.registered_switches[sobj][state]:
                    cb = entry.callback
                    if isinstance(cb, functools.partial) and cb.func is PlatformController._notify_psu_about_pulse:
                        k = (sw, cb.keywords["driver"].name)
                        psu[k] = psu.get(k, 0) + 1
                    elif inspect.ismethod(cb) and isinstance(cb.__self__, SoftwareEosRepulseManager):
                        mg = cb.__self__
                        idx = None
                        for i, x in enumerate(mgrs):
                            if x is mg:
                                idx = i
                        if idx is None:
                            mgrs.append(mg)
                            idx = len(mgrs) - 1
                        eos.setdefault(sw, {})
                        eos[sw][idx] = eos[sw].get(idx, 0) + 1
        # pending timed handlers of managers that are gone
        stale = 0
        for sw in dev_switches:
            sobj = m.switches[sw]
            for lst in sc._active_timed_switches.get(sobj, {}).values():
                for te in lst:
                    cb = te.callback
                    if inspect.ismethod(cb) and isinstance(cb.__self__, SoftwareEosRepulseManager):
                        if not any(x is cb.__self__ for x in mgrs):
                            stale += 1
        return psu, eos, len(mgrs), stale

    # ---- the invariant ---------------------------------------------------------------------------
    prev_enabled = {d: False for d in DEVS}
    stats = {"checks": 0}

    def check(tag):
        now = loop.time()
        stats["checks"] += 1
        en = {d: bool(devobj[d]._enabled) for d in DEVS}
        # (1) device state follows the processed requests
        for d in DEVS:
            if model[d] == "either":
                if prev_enabled[d] and not en[d]:
                    ctx.probe("timeout_tripped")
                if not prev_enabled[d] and en[d]:
                    ctx.probe("timeout_reenabled")
                continue
            if en[d] != model[d]:
                r = "enabled_after_disable" if en[d] else "not_enabled_after_enable"
                k = ctx.violation(r, d[0], "%s: device %s enabled=%r but the last processed request says %r "
                                  "(t=%.6f, %s)" % (tag, d, en[d], model[d], now, tag))
                if k:
                    model[d] = en[d]
        # (2) installed rules == union of the rules of the enabled devices, each exactly once
        exp = {}
        for d in DEVS:
            if en[d]:
                for sw, coil, typ in exp_rules[d]:
                    exp.setdefault((swnum[sw], coilnum[coil]), []).append(typ)
        got = {k: sorted(v) for k, v in installed.items()}
        expn = {k: sorted(v) for k, v in exp.items()}
        count = {k: v for k, v in hw.rule_count.items() if v}
        if {k: len(v) for k, v in got.items()} != count:
            raise AssertionError("listener bookkeeping differs from SimPlatform.rule_count: %r vs %r" % (got, count))
        if got != expn:
            missing = sorted(k for k in expn if got.get(k) != expn[k])
            extra = sorted(k for k in got if k not in expn)
            what = []
            for k in extra:
                what.append("leaked %s->%s %r" % (swname[k[0]], coilname[k[1]], got[k]))
            for k in missing:
                what.append("%s->%s installed %r expected %r" % (swname[k[0]], coilname[k[1]], got.get(k), expn[k]))
            owner = sorted({d for d in DEVS for sw, coil, _ in exp_rules[d]
                            if (swnum[sw], coilnum[coil]) in extra or (swnum[sw], coilnum[coil]) in missing})
            rule = "rule_leak" if extra and not missing else ("rule_missing" if missing and not extra else "rule_set")
            k = ctx.violation(rule, ",".join(owner), "%s at %.6f: %s; enabled devices: %s"
                              % (tag, now, "; ".join(what), [d for d in DEVS if en[d]]))
            if k:
                installed.clear()
                for kk, v in expn.items():
                    installed[kk] = list(v)
        if got:
            ctx.probe("rules_checked_nonempty")
        # (3) PSU / software-EOS switch handlers present iff the rule is
        psu, eos, nmgr, stale = scan_handlers()
        exp_psu = {}
        exp_eos = {}
        exp_mgr = 0
        for d in DEVS:
            if not en[d]:
                continue
            act = FLIPPERS[d]["sw"] if d in FLIPPERS else (AUTOFIRES.get(d) or KICKBACKS[d])["sw"]
            for sw, coil, typ in exp_rules[d]:
                if sw == act:
                    exp_psu[(sw, coil)] = exp_psu.get((sw, coil), 0) + 1
            if d in FLIPPERS and FLIPPERS[d]["eos"] and repulse[d]:
                exp_mgr += 1
                exp_eos[FLIPPERS[d]["sw"]] = 2
                exp_eos[FLIPPERS[d]["eos"]] = 2
        if psu != exp_psu:
            k = ctx.violation("psu_handler", "psu", "%s at %.6f: PSU switch handlers %r, expected %r (enabled: %s)"
                              % (tag, now, sorted(psu.items()), sorted(exp_psu.items()), [d for d in DEVS if en[d]]))
        eos_tot = {sw: sum(v.values()) for sw, v in eos.items()}
        if eos_tot != exp_eos or nmgr != exp_mgr or stale:
            k = ctx.violation("eos_handler", "eos", "%s at %.6f: software EOS handlers %r (%d managers, %d stale timed "
                              "handlers), expected %r (%d managers); enabled: %s"
                              % (tag, now, sorted(eos_tot.items()), nmgr, stale, sorted(exp_eos.items()), exp_mgr,
                                 [d for d in DEVS if en[d]]))
        # (4) a disabled flipper holds no coil
        for d in FLIPPERS:
            if en[d]:
                continue
            for c in (FLIPPERS[d]["main"], FLIPPERS[d]["hold"]):
                if c and hw.sim_drivers[coilnum[c]].sim_enabled:
                    k = ctx.violation("coil_energised", "%s %s" % (d, "repulse" if repulse.get(d) else "plain"),
                                      "%s at %.6f: flipper %s is disabled but coil %s is still held on"
                                      % (tag, now, d, c))
                    if k:
                        hw.sim_drivers[coilnum[c]].sim_enabled = False
        # (5) service / tilt / no game: nothing is enabled on behalf of the game
        cur = update_phase()
        if cur["service"] or cur["tilted"] or not cur["game"] or not cur["ball"]:
            where = ("service" if cur["service"] else "tilted" if cur["tilted"] else
                     "no game" if not cur["game"] else "between balls")
            for d in DEVS:
                if en[d] and own[d] != episode[0]:
                    k = ctx.violation("enabled_outside_play", "%s %s" % (d[0], where),
                                      "%s at %.6f: %s is enabled (rules installed) although the machine is in "
                                      "'%s' and no enable request was made since" % (tag, now, d, where))
                    if k:
                        own[d] = episode[0]
            ctx.probe("outside_play_checked")
        for d in DEVS:
            prev_enabled[d] = en[d]
        g = m.game
        ph = ("service" if m.service.is_in_service() else
              "nogame" if not g else "tilted" if g.tilted else "ball" if phase["ball"] else "between")
        ctx.log("chk", tag, "".join("1" if en[d] else "0" for d in DEVS), ph, t=now)
        ctx.state(tuple(en[d] for d in DEVS), ph, bool(pf.ball_search.started))

    pending_check = {"n": 0}

    def request_check(tag):
        if pending_check["n"]:
            return
        pending_check["n"] = 1
        loop.call_soon(_try_check, tag, 0)

    def _try_check(tag, n):
        if (loop._ready or m.events.event_queue or m.events.callback_queue) and n < 500:
            loop.call_soon(_try_check, tag, n + 1)
            return
        pending_check["n"] = 0
        if n >= 500:
            ctx.log("chk_skipped", tag, t=loop.time())
            return
        check(tag)

    # ---- operations ----------------------------------------------------------------------------------
    def hit(sw, state):
        if sw in NC_RAW:
            # what an opto board reports: the raw contact state, closed (1) at rest, open (0) when actuated
            sim.hit_switch(sw, 0 if state else 1, logical=False)
            if bool(m.switches[sw].state) != bool(state):
                raise AssertionError("raw report on NC switch %s did not give logical state %r" % (sw, state))
        else:
            sim.hit_switch(sw, state)

    def record_hit(sw):
        now = loop.time()
        for d, (watch, maxh) in timeout.items():
            dsw = (AUTOFIRES.get(d) or KICKBACKS[d])["sw"]
            if dsw != sw:
                continue
            hits[d] = [t for t in hits[d] if t > now - watch - 1e-9]
            hits[d].append(now)
            # Relaxation: the statement does not say when the timeout protection trips; once max_hits
            # activations lie inside the configured watch time the device may be in either state (and
            # its re-enable timer may flip it later) until the next explicit request.
            if model[d] in (True, "either") and len(hits[d]) >= maxh:
                model[d] = "either"

    def tap(sw, gap=0.0):
        record_hit(sw)
        hit(sw, 1)
        if gap <= 0:
            hit(sw, 0)
        else:
            sim.after(gap / 2.0, hit, sw, 0)

    def do_action(a):
        d = a["dev"]
        dev = devobj[d]
        k = a["a"]
        if k == "ev_enable":
            sim.post("c10_enable_" + d)
        elif k == "ev_disable":
            sim.post("c10_disable_" + d)
        elif k == "call_enable":
            m_enable(d, "call")
            dev.enable()
        elif k == "call_disable":
            m_disable(d, "call")
            dev.disable()
        elif k == "flip":
            if dev._enabled:
                ctx.probe("sw_flip_enabled")
            if a["via"] == "event":
                sim.post("c10_flip_" + d)
            else:
                dev.sw_flip()
        elif k == "release":
            if a["via"] == "event":
                sim.post("c10_release_" + d)
            else:
                dev.sw_release()

    def powered(f):
        fl = FLIPPERS[f]
        key = (swnum[fl["sw"]], coilnum[fl["main"]])
        if world["btn"][f] and hw.rule_count.get(key):
            return True
        for c in (fl["main"], fl["hold"]):
            if c and hw.sim_drivers[coilnum[c]].sim_enabled:
                return True
        return False

    def eos_close(f):
        if not world["eos"][f] and powered(f):
            world["eos"][f] = True
            ctx.log("world", "eos_close", f, t=loop.time())
            hit(FLIPPERS[f]["eos"], 1)
            request_check("eos_close")

    def eos_open(f):
        if world["eos"][f]:
            world["eos"][f] = False
            ctx.log("world", "eos_open", f, t=loop.time())
            before = len(hw.commands)
            hit(FLIPPERS[f]["eos"], 0)
            if len(hw.commands) > before and devobj[f]._enabled and repulse.get(f):
                ctx.probe("eos_repulse")
            request_check("eos_open")

    def do_op(op):
        kind = op["op"]
        now = loop.time()
        g = m.game
        ctx.log("op", kind, op.get("dev") or op.get("sw") or "", t=now)
        if kind == "burst":
            kinds = {a["a"] for a in op["acts"]}
            if kinds & {"ev_enable", "call_enable"} and kinds & {"ev_disable", "call_disable"}:
                ctx.probe("enable_and_disable_same_tick")
            for a in op["acts"]:
                ctx.log("act", a["a"], a["dev"], a.get("via", ""), t=now)
                do_action(a)
        elif kind == "btn":
            f = op["dev"]
            if op["down"] and not world["btn"][f]:
                world["btn"][f] = True
                hit(FLIPPERS[f]["sw"], 1)
            elif not op["down"] and world["btn"][f]:
                world["btn"][f] = False
                hit(FLIPPERS[f]["sw"], 0)
                if world["eos"][f]:
                    sim.after(0.005, eos_open, f)      # the flipper drops
        elif kind == "eos":
            f = op["dev"]
            if op["close"]:
                eos_close(f)
            else:
                eos_open(f)        # a ball knocks the flipper down / it drops
        elif kind == "cradle":
            # the player holds the button: the flipper rises (EOS closes); a ball may knock it down for a moment
            f = op["dev"]
            if not world["btn"][f]:
                world["btn"][f] = True
                hit(FLIPPERS[f]["sw"], 1)
            sim.after(0.01, eos_close, f)
            if op["knock"]:
                sim.after(0.01 + cfg["eos_ms"] / 1000.0 + 0.02, eos_open, f)
                sim.after(0.01 + cfg["eos_ms"] / 1000.0 + 0.03, eos_close, f)
        elif kind == "hit":
            tap(op["sw"], 0.01)
        elif kind == "storm":
            for i in range(op["n"]):
                if op["gap"] <= 0 or i == 0:
                    tap(op["sw"], 0.0)
                else:
                    sim.after(i * op["gap"], storm_tap, op["sw"])
        elif kind == "start":
            hit("s_start", 1)
            hit("s_start", 0)
        elif kind == "drain":
            if g and g.balls_in_play > 0 and not g.tilted:
                m.events.post_relay("ball_drain", balls=1, callback=drained)
        elif kind == "tilt_warning":
            hit("s_tilt_warning", 1)
            hit("s_tilt_warning", 0)
        elif kind in ("tilt", "slam_tilt"):
            # the ball is (about to be) gone when the machine tilts: without ball devices nothing could
            # tell the tilt mode that the ball drained, so there is nothing left to collect
            if g:
                pf.balls = 0
                pf.available_balls = 0
            sw = "s_tilt" if kind == "tilt" else "s_slam_tilt"
            hit(sw, 1)
            hit(sw, 0)
        elif kind == "service":
            if m.service.is_in_service():
                hit("s_service_esc", 1)
                hit("s_service_esc", 0)
            else:
                if g:
                    ctx.probe("service_in_game")
                hit("s_service_enter", 1)
                hit("s_service_enter", 0)
        elif kind == "bs_start":
            if pf.ball_search.enabled and not pf.ball_search.started:
                for f in cfg["bs_flippers"]:
                    if devobj[f]._enabled:
                        ctx.probe("ball_search_flip")
                pf.ball_search.start()
        elif kind == "pf_switch":
            hit("s_playfield", 1)
            hit("s_playfield", 0)
        elif kind == "react":
            reactions.append((op["on"], op["do"], op["delay"]))
        elif kind == "end_ball":
            sim.post("end_ball")
        elif kind == "end_game":
            sim.post("end_game")
        request_check("op:" + kind)

    def storm_tap(sw):
        tap(sw, 0.0)
        request_check("storm")

    def drained(balls=0, **kwargs):
        if pf.balls > 0:
            pf.balls -= 1
        if pf.available_balls > 0:
            pf.available_balls -= 1

    # ---- op chain -------------------------------------------------------------------------------------
    ops = plan["ops"]
    idx = [0]
    done = [False]

    def schedule_next():
        if idx[0] >= len(ops):
            done[0] = True
            return
        w = ops[idx[0]]["when"]
        now = loop.time()
        if w[0] == "rel":
            t = now + w[1]
        else:
            tt = []
            for x in loop.pending_timer_times():
                if now < x <= now + 3.0 and (not tt or x - tt[-1] > 1e-9):
                    tt.append(x)
            if tt:
                t = max(now, tt[w[1] % len(tt)] + w[2])
                if w[2] == 0.0:
                    ctx.probe("op_on_timer")
            else:
                t = now + 0.02
        sim.at(t, run_op)

    def run_op():
        op = ops[idx[0]]
        idx[0] += 1
        do_op(op)
        schedule_next()

    def periodic():
        request_check("tick")
        if not done[0]:
            sim.after(0.05, periodic)

    check("boot")
    schedule_next()
    sim.after(0.05, periodic)
    guard = 0
    while not done[0]:
        sim.run(0.5)
        guard += 1
        if guard > 600:
            raise AssertionError("op chain did not finish")
    # ---- settle, then walk the machine into "no game" and require a clean platform ---------------------
    del reactions[:]
    sim.run_quiet(1.0)
    check("settled")

    def quiet(dt, tag):
        sim.run_quiet(dt)
        check(tag)

    for f in FLIPPERS:
        if world["btn"][f]:
            world["btn"][f] = False
            hit(FLIPPERS[f]["sw"], 0)
            if world["eos"][f]:
                sim.after(0.005, eos_open, f)
    quiet(0.1, "buttons_released")
    # a running game is ended the regular way: end_game ends the ball, ball_will_end disables every device
    # (longest chain: tilt settle <= 2 s, ball search give-up)
    for _ in range(6):
        if not m.game:
            break
        sim.post("end_game")
        pf.balls = 0
        pf.available_balls = 0
        quiet(2.5, "ending_game")
    if m.game:
        # Seen, outside this property: a tilt that was cut short by service mode leaves Tilt._ball_ending_tilted
        # registered on ball_ending; the next game then waits for ever at its first ball end.  The devices are
        # disabled at that point (ball_will_end has been processed), which is all C10 asks for; service mode
        # below removes the stuck game.
        ctx.info["game_stuck_in_ball_ending"] = 1
        ctx.log("game_stuck", t=loop.time())
    # then the operator opens the door and enters service mode (after leaving it first, if we are in it)
    for _ in range(8):
        if not m.service.is_in_service():
            break
        hit("s_service_esc", 1)
        hit("s_service_esc", 0)
        quiet(0.5, "leaving_service")
    if m.service.is_in_service():
        raise AssertionError("could not leave service mode in the closing phase")
    hit("s_service_enter", 1)
    hit("s_service_enter", 0)
    quiet(1.0, "service_entered")
    if not m.service.is_in_service():
        raise AssertionError("could not enter service mode in the closing phase")

    def final_clean(tag):
        # "When ... service mode is entered or no game is running, no flipper or autofire rule remains and no
        # flipper coil is left energised": nothing asked for an enable since service_mode_entered
        ctx.probe("final_clean_checked")
        for d in DEVS:
            if model[d] is not False:
                raise AssertionError("closing phase: model of %s is %r" % (d, model[d]))
        if installed or hw.rule_count:
            ctx.violation("final_clean", "rules", "%s: rules remain: %r" % (tag, sorted(hw.rule_count.items())))
        for d in FLIPPERS:
            for c in (FLIPPERS[d]["main"], FLIPPERS[d]["hold"]):
                if c and hw.sim_drivers[coilnum[c]].sim_enabled:
                    ctx.violation("final_clean", "coil %s" % d, "%s: flipper coil %s is held on" % (tag, c))
    final_clean("in service")
    for _ in range(8):
        if not m.service.is_in_service():
            break
        hit("s_service_esc", 1)
        hit("s_service_esc", 0)
        quiet(0.5, "leaving_service")
    quiet(2.0, "no_game")
    final_clean("no game after service")
    ctx.info["checks"] = stats["checks"]


def on_crash(ctx, crash):
    """The statement quantifies over all request sequences: none of them may stop MPF."""
    import traceback
    exc = crash.exc
    if exc is None:
        return None
    frames = traceback.extract_tb(exc.__traceback__)
    inner = None
    e = exc
    # follow the cause chain to the innermost exception
    seen = 0
    while e is not None and seen < 10:
        tb = traceback.extract_tb(e.__traceback__)
        if tb:
            inner = (e, tb[-1])
        e = e.__cause__ or e.__context__
        seen += 1
    if inner is None:
        return None
    ie, fr = inner
    if "/verif/" in fr.filename and "/mpf/" not in fr.filename:
        return None                     # a bug in this check, not in MPF
    where = "%s:%s" % (fr.filename.split("/mpf/")[-1], fr.name)
    return ("crash", "%s %s" % (type(ie).__name__, where),
            "exception reached the event loop: %s: %s at %s line %s" % (type(ie).__name__, ie, where, fr.lineno))
