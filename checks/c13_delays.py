"""C13 - Delays and periodic timers fire exactly when promised, or never.

SUT: machine-wide DelayManager, a mode-owned DelayManager (cleared at mode stop),
ClockBase.schedule_interval (PeriodicTask), Timer device in a mode.
Oracle: reference model of named delays driven by the order in which the loop processed
operations and deadlines; nominal grid for periodic tasks; small model of the timer device.
"""
from sim.harness import draw_knobs

ID = "C13"
LEVEL = "exploration"
RUNS = {"quick": 2500, "thorough": 120000}
WALL_CAP = {"quick": 120, "thorough": 3000}
RULE = ("one case = one generated history of delay/periodic/timer operations (4-30 ops, some nested inside "
        "delay callbacks, times biased onto pending deadlines +-1ms) executed on the real DelayManager/"
        "PeriodicTask/Timer under a seeded scheduler (loop stalls, same-instant tie permutations); a case is "
        "non-trivial when it reached at least one reach probe (op landed exactly on a deadline, nested op "
        "inside a callback, stall across a deadline, ...); distinct = distinct sequence of observed event kinds")
PROBES = ["op_on_deadline", "nested_op", "run_now_pending", "remove_pending", "replace_pending",
          "late_fire_after_stall", "periodic_catch_up", "mode_stop_with_pending", "check_true", "check_false",
          "timer_complete", "timer_paused", "timer_tick"]
REAL = ["mpf.core.delays.DelayManager", "mpf.core.clock.PeriodicTask/ClockBase.schedule_interval",
        "mpf.devices.timer.Timer", "mpf.core.mode.Mode (start/stop, mode-owned delays)", "mpf.core.events.EventManager",
        "MachineController boot"]
STUBS = ["event loop (SimLoop: virtual time, stalls, tie order)", "clock (SimClock)", "virtual hardware platform",
         "in-memory data manager"]
ASSUMPTIONS = ["call_soon FIFO order is kept (asyncio guarantees it)",
               "time does not advance inside one loop iteration; lateness only through injected stalls"]
STATE_ABSTRACTION = "(number of pending delays, last op kind, fired-late flag)"

NAMES = ["n0", "n1", "n2", "n3"]
MS = [0, 1, 10, 100, 100, 250, 1000]
TOL = 1e-9


def _gen_op(ch, depth):
    kind = ch.weighted("op", [("add", 5), ("add_if", 2), ("reset", 2), ("remove", 2), ("run_now", 2),
                              ("check", 1), ("clear", 0.5), ("add_anon", 1)])
    op = {"op": kind, "mgr": ch.weighted("mgr", [("machine", 3), ("mode", 2)])}
    if kind != "clear":
        op["name"] = ch.pick("name", NAMES)
    if kind in ("add", "add_if", "reset", "add_anon"):
        op["ms"] = ch.pick("ms", MS)
        nk = ch.choice("nkw", 3)
        op["kw"] = {"k%d" % i: ch.choice("kwv", 5) for i in range(nk)}
        if depth < 2 and ch.flag("nest", 0.3):
            op["inside"] = [_gen_op(ch, depth + 1) for _ in range(1 + ch.choice("nin", 2))]
    return op


# the timers and their control events are defined in machines/c13/modes/m1/config/m1.yaml; ARGS mirrors the values there
TIMERS = {"t_up": {"start": 0, "end": 5, "dir": 1, "interval": 1.0,
                   "args": {"pause": 1.9, "pause0": 0, "add": 2, "subtract": 1, "jump": 3, "set_interval": 0.5}},
          "t_down": {"start": 4, "end": 0, "dir": -1, "interval": 0.25,
                     "args": {"pause": 0.5, "pause0": 0, "add": 2, "subtract": 1, "jump": 2, "set_interval": 0.1}}}


def plan(ch, tier):
    if ch.flag("family_timer", 0.3):
        return _plan_timer(ch)
    return _plan_delays(ch)


def _plan_timer(ch):
    knobs = draw_knobs(ch)
    ops = []
    for _ in range(3 + ch.choice("nops", 14)):
        k = ch.weighted("top", [("start", 5), ("stop", 2), ("pause", 3), ("pause0", 2), ("add", 2), ("subtract", 2), ("jump", 2),
                                ("reset", 1), ("restart", 2), ("set_interval", 1.5), ("mode_restart", 1.5)])
        op = {"op": k, "timer": ch.pick("timer", ["t_down", "t_up"]),
              "when": ch.weighted("twhen", [("rel", 3), ("tick", 3)]),
              "dt": ch.pick("tdt", [0.0, 0.1, 0.25, 0.3, 0.5, 0.99, 1.0, 1.01, 2.0, 3.3]),
              "delta": ch.pick("tdelta", [0.0, 0.0, -0.001, 0.001])}
        ops.append(op)
    return {"family": "timer", "knobs": knobs, "ops": ops}


def _plan_delays(ch):
    knobs = draw_knobs(ch)
    n = 4 + ch.choice("nops", 24)
    ops = []
    for _ in range(n):
        w = ch.weighted("when", [("rel", 4), ("deadline", 4), ("now", 1)])
        op = _gen_op(ch, 0)
        if w == "rel":
            op["when"] = ["rel", ch.pick("dt", [0.0, 0.001, 0.009, 0.01, 0.05, 0.099, 0.1, 0.101, 0.25, 0.5, 1.0, 2.5])]
        elif w == "deadline":
            op["when"] = ["deadline", ch.choice("dl_idx", 4), ch.pick("dl_delta", [0.0, 0.0, -0.001, 0.001])]
        else:
            op["when"] = ["rel", 0.0]
        ops.append(op)
    # interleave a few special ops
    late_add = ch.pick("late_add", [0, 100, 300, 0])
    if ch.flag("mode_stop", 0.5):
        pos = ch.choice("mode_stop_pos", len(ops) + 1)
        ops.insert(pos, {"op": "mode_stop", "when": ["rel", ch.pick("dt2", [0.0, 0.01, 0.1, 0.3])]})
        if ch.flag("mode_restart", 0.5):
            ops.insert(min(len(ops), pos + 1 + ch.choice("mrp", 4)),
                       {"op": "mode_start", "when": ["rel", ch.pick("dt3", [0.0, 0.01, 0.2])]})
    periodic = []
    for i in range(ch.choice("nper", 3)):
        periodic.append({"interval": ch.pick("pint", [0.01, 0.05, 0.1, 0.3, 1.0 / 3, 0.7]),
                         "start": ch.pick("pstart", [0.0, 0.013, 0.2]),
                         "cancel_after": ch.pick("pcancel", [None, 0.35, 1.0, 2.05])})
    return {"knobs": knobs, "ops": ops, "periodic": periodic, "late_add": late_add}


def warm():
    from sim.machine import preload
    preload("c13")


class Model:

    def __init__(self):
        self.pending = {"machine": {}, "mode": {}}   # mgr -> name -> token dict
        self.tokens = 0

    def new_token(self, mgr, name, deadline, kw, inside):
        self.tokens += 1
        return {"id": self.tokens, "mgr": mgr, "name": name, "deadline": deadline, "kw": dict(kw),
                "inside": inside, "fired": 0, "dead": False}


def execute(ctx, plan):
    if plan.get("family") == "timer":
        return _execute_timer(ctx, plan)
    sim = ctx.new_sim("c13")
    sim.boot()
    m = sim.machine
    loop = sim.loop
    model = Model()
    mode = m.modes["m1"]
    late_add = plan.get("late_add")

    def arm_late_add():
        # a handler of the mode itself reacts to the mode's own stopped event by adding a delay to the mode's delay
        # manager (what a delayed device control event listening to mode_<name>_stopped does): it belongs to the mode
        # that is stopping and must never fire
        if not late_add:
            return

        def on_stopped(**kwargs):
            ctx.probe("delay_added_while_mode_stops")
            t_add = loop.time()

            def late_cb(**kw):
                ctx.violation("fired_after_cancel", "delay added while the mode stopped", "a delay added to the mode's "
                              "delay manager at %.6f by a handler of mode_m1_stopped fired at %.6f although its mode "
                              "had stopped" % (t_add, loop.time()))
            mode.delay.add(ms=late_add, callback=late_cb, name="late_add")
        mode.add_mode_event_handler("mode_m1_stopped", on_stopped)
    mode.start()
    arm_late_add()
    sim.run(0.01)
    assert mode.active
    mgrs = {"machine": m.delay, "mode": mode.delay}
    mode_active = [True]
    base_machine_delays = set(m.delay.delays.keys())
    anon = [0]
    all_tokens = []

    def late_ok(deadline, now):
        if now + TOL < deadline:
            return False
        if now - deadline <= TOL:
            return True
        if loop.stall_log and abs(loop.stall_log[-1][1] - now) <= TOL:
            return True
        return False

    def mk_callback(tok):
        def cb(**kwargs):
            now = loop.time()
            ctx.log("fire", tok["mgr"], tok["name"], tok["id"], sorted(kwargs.items()), t=now)
            tok["fired"] += 1
            cur = model.pending[tok["mgr"]].get(tok["name"])
            if tok.get("run_now_expected"):
                tok["run_now_expected"] = False
                tok["run_now_seen"] = True
                # run_now: immediate call with the stored kwargs
                if kwargs != tok["kw"]:
                    if ctx.violation("run_now_args", "run_now drops stored kwargs",
                                     "run_now(%s) called callback with %r, stored %r" % (tok["name"], kwargs, tok["kw"])):
                        pass
            else:
                if tok["dead"] or cur is not tok:
                    ctx.violation("fired_after_cancel", "delay", "delay %s/%s (token %d) fired at %.6f after it "
                                  "was removed/replaced/cleared" % (tok["mgr"], tok["name"], tok["id"], now))
                    return
                if tok["fired"] > 1:
                    ctx.violation("fired_twice", "delay", "delay %s fired %d times" % (tok["name"], tok["fired"]))
                if kwargs != tok["kw"]:
                    ctx.violation("wrong_args", "delay", "delay %s fired with %r, stored %r" % (tok["name"], kwargs, tok["kw"]))
                if not late_ok(tok["deadline"], now):
                    ctx.violation("wrong_time", "delay", "delay %s due %.9f fired at %.9f (last stall %r)"
                                  % (tok["name"], tok["deadline"], now, loop.stall_log[-1:] or None))
                if now - tok["deadline"] > TOL:
                    ctx.probe("late_fire_after_stall")
                # self-removal before the callback: during its own callback the delay no longer exists
                del model.pending[tok["mgr"]][tok["name"]]
                tok["dead"] = True
            for sub in tok["inside"] or []:
                ctx.probe("nested_op")
                do_op(sub, nested=True)
        return cb

    def do_op(op, nested=False):
        now = loop.time()
        kind = op["op"]
        if kind == "mode_stop":
            if mode_active[0]:
                if model.pending["mode"]:
                    ctx.probe("mode_stop_with_pending")
                ctx.log("mode_stop", t=now)
                mode.stop()
                for tok in model.pending["mode"].values():
                    tok["dead"] = True
                model.pending["mode"] = {}
                mode_active[0] = False
            return
        if kind == "mode_start":
            if not mode_active[0] and not mode.active and not mode._starting and not mode.stopping:
                ctx.log("mode_start", t=now)
                mode.start()
                arm_late_add()
                mode_active[0] = True
            return
        mgrname = op["mgr"]
        if mgrname == "mode" and not mode_active[0]:
            mgrname = "machine"
        mgr = mgrs[mgrname]
        pend = model.pending[mgrname]
        name = op.get("name")
        ctx.log("op", kind, mgrname, name, op.get("ms"), t=now)
        # check() must be truthful right now, for every name
        for nm in NAMES:
            got = mgr.check(nm)
            exp = nm in pend
            ctx.probe("check_true" if exp else "check_false")
            if bool(got) != exp:
                ctx.violation("check_untruthful", "check", "check(%s/%s)=%r but model says %r at %.6f"
                              % (mgrname, nm, got, exp, now))
        if kind in ("add", "reset", "add_if", "add_anon"):
            if kind == "add_anon":
                name = None
            if kind == "add_if" and name in pend:
                r = mgr.add_if_doesnt_exist(op["ms"], lambda **kw: ctx.violation(
                    "add_if_replaced", "add_if", "add_if_doesnt_exist replaced an existing delay"), name, **op["kw"])
                return
            deadline = now + op["ms"] / 1000.0
            if name is not None and name in pend:
                ctx.probe("replace_pending")
                pend[name]["dead"] = True
            tok = model.new_token(mgrname, name, deadline, op["kw"], op.get("inside"))
            all_tokens.append(tok)
            cb = mk_callback(tok)
            if kind == "add_if":
                ret = mgr.add_if_doesnt_exist(op["ms"], cb, name, **op["kw"])
            elif kind == "reset":
                ret = mgr.reset(op["ms"], cb, name, **op["kw"])
            else:
                ret = mgr.add(op["ms"], cb, name, **op["kw"])
            if name is None:
                tok["name"] = ret
            pend[tok["name"]] = tok
        elif kind == "remove":
            if name in pend:
                ctx.probe("remove_pending")
                pend[name]["dead"] = True
                del pend[name]
            mgr.remove(name)
        elif kind == "clear":
            for tok in pend.values():
                tok["dead"] = True
            if mgrname == "machine":
                # the machine-wide manager also carries MPF's own delays; clear only ours
                for nm in list(pend.keys()):
                    mgr.remove(nm)
            else:
                mgr.clear()
            pend.clear()
        elif kind == "run_now":
            tok = pend.get(name)
            if tok is not None:
                ctx.probe("run_now_pending")
                tok["run_now_expected"] = True
                tok["run_now_seen"] = False
                del pend[name]
                tok["dead"] = True
                before = tok["fired"]
                mgr.run_now(name)
                if not tok.get("run_now_seen") or tok["fired"] != before + 1:
                    tok["run_now_expected"] = False
                    ctx.violation("run_now_not_immediate", "run_now",
                                  "run_now(%s) did not call the pending callback immediately" % name)
            else:
                mgr.run_now(name)
        elif kind == "check":
            pass
        ctx.state(len(model.pending["machine"]) + len(model.pending["mode"]), kind)

    # periodic tasks --------------------------------------------------------------------
    periodics = []

    def start_periodic(p):
        st = {"p": p, "t0": loop.time(), "k": 0, "cancelled": False, "task": None}

        def tick():
            now = loop.time()
            st["k"] += 1
            nominal = st["t0"] + st["k"] * p["interval"]
            ctx.log("tick", p["interval"], st["k"], t=now)
            if st["cancelled"]:
                ctx.violation("tick_after_cancel", "periodic", "periodic %r ticked at %.6f after cancel" % (p, now))
            if now + 1e-7 < nominal:
                ctx.violation("tick_early", "periodic", "tick %d of %r at %.9f before nominal %.9f" % (st["k"], p, now, nominal))
            if now - nominal > 1e-7:
                if not late_ok(nominal, now):
                    ctx.violation("tick_drift", "periodic", "tick %d of %r at %.9f, nominal %.9f, not explained by a stall %r"
                                  % (st["k"], p, now, nominal, loop.stall_log[-1:]))
                ctx.probe("periodic_catch_up")
        st["task"] = sim.clock.schedule_interval(tick, p["interval"])
        periodics.append(st)
        if p["cancel_after"] is not None:
            def cancel():
                ctx.log("cancel_periodic", p["interval"], t=loop.time())
                st["cancelled"] = True
                st["cancel_t"] = loop.time()
                # ticks guaranteed before the cancel: those nominally due before the instant the loop
                # woke up for (if it landed late, ticks due inside the stall may or may not precede
                # the cancel, both are "none while cancelled")
                g = loop.time()
                if loop.stall_log and abs(loop.stall_log[-1][1] - g) <= TOL:
                    g = loop.stall_log[-1][0]
                st["guaranteed_t"] = g
                st["task"].cancel()
            sim.after(p["cancel_after"], cancel)

    for p in plan["periodic"]:
        sim.after(p["start"], start_periodic, p)

    # op chain: each op schedules the next one, so "when" can refer to the live model ----
    ops = plan["ops"]
    idx = [0]
    done = [False]

    def schedule_next():
        if idx[0] >= len(ops):
            done[0] = True
            return
        op = ops[idx[0]]
        w = op["when"]
        now = loop.time()
        if w[0] == "rel":
            t = now + w[1]
        else:
            dls = sorted(tok["deadline"] for mg in model.pending.values() for tok in mg.values()
                         if tok["deadline"] >= now)
            if dls:
                d = dls[w[1] % len(dls)]
                t = d if w[2] == 0.0 else max(now, d + w[2])
                if w[2] == 0.0:
                    ctx.probe("op_on_deadline")
            else:
                t = now + 0.01
        sim.at(t, run_op)

    def run_op():
        op = ops[idx[0]]
        idx[0] += 1
        do_op(op)
        schedule_next()

    schedule_next()
    guard = 0
    while not done[0]:
        sim.run(0.5)
        guard += 1
        if guard > 400:
            raise AssertionError("op chain did not finish")
    # let everything expire (longest delay is 1 s; stalls up to 3 s)
    sim.run_quiet(4.0)
    end = loop.time()
    for tok in all_tokens:
        if not tok["dead"] and tok["fired"] == 0 and tok["deadline"] <= end - 0.5:
            ctx.violation("never_fired", "delay", "delay %s/%s due %.6f never fired (now %.6f)"
                          % (tok["mgr"], tok["name"], tok["deadline"], end))
        if tok["fired"] > 1:
            ctx.violation("fired_twice", "delay", "delay %s fired %d times" % (tok["name"], tok["fired"]))
    for st in periodics:
        p = st["p"]
        stop_t = st.get("cancel_t", end)
        exp = int((stop_t - st["t0"]) / p["interval"] + 1e-6)
        # ticks whose nominal time is strictly before the cancel instant must all have happened;
        # a tick nominally at the cancel instant itself may go either way (tie)
        lo = max(0, int((st.get("guaranteed_t", stop_t) - st["t0"] - 1e-6) / p["interval"]))
        if not (lo <= st["k"] <= exp):
            ctx.violation("tick_count", "periodic", "periodic %r ticked %d times between %.6f and %.6f, expected %d..%d"
                          % (p, st["k"], st["t0"], stop_t, lo, exp))
    if not mode.active and not mode.stopping and mode.delay.delays:
        ctx.violation("check_untruthful", "mode_leftover", "the mode has stopped but its delay manager still holds %r"
                      % sorted(mode.delay.delays))
    for nm in set(m.delay.delays.keys()) - base_machine_delays:
        if nm not in model.pending["machine"]:
            ctx.violation("check_untruthful", "leftover", "delay %s still registered but not in model" % nm)


# ------------------------------------------------------------------------------------------
# timer device family


def _execute_timer(ctx, plan):
    from sim.tap import tap_events
    sim = ctx.new_sim("c13")
    sim.boot()
    loop = sim.loop
    mode = sim.machine.modes["m1"]
    mode.start()
    sim.run(0.01)
    timers = {n: sim.machine.timers[n] for n in TIMERS}
    # model per timer
    M = {n: {"value": c["start"], "running": False, "t0": None, "k": 0, "interval": c["interval"], "auto_start": None,
             "cfg": c} for n, c in TIMERS.items()}
    in_op = [None]          # name of the timer an op is being applied to right now
    restarting = [False]
    expect = []             # events the model expects within the current op (unordered multiset of (name, ticks))

    def done(m):
        c = m["cfg"]
        return m["value"] >= c["end"] if c["dir"] > 0 else m["value"] <= c["end"]

    def model_complete(n, m, now):
        m["running"] = False
        m["auto_start"] = None
        ctx.probe("timer_complete")

    def on_event(name, ev_type, cb, kwargs):
        if not name.startswith("timer_t_"):
            return
        for n in TIMERS:
            if name.startswith("timer_" + n + "_"):
                what = name[len("timer_" + n + "_"):]
                break
        else:
            return
        now = loop.time()
        m = M[n]
        ctx.log("tev", n, what, kwargs.get("ticks"), t=now)
        if in_op[0] is not None:
            # consequences of an op the model applied: checked by value after the op
            return
        if restarting[0]:
            # the owning mode is being stopped and started again (60 ms): a tick that is due in the instant of the stop
            # request still happens, the timers are only stopped when the mode has removed its devices
            return
        if what == "tick" and m.get("initial_tick"):
            # start() posts one tick for the starting value right away (documented in timer.py)
            m["initial_tick"] = False
            if kwargs.get("ticks") != m["value"]:
                ctx.violation("tick_value", "timer", "%s initial tick carries ticks=%r, model %r" % (n, kwargs.get("ticks"), m["value"]))
            return
        if what == "tick":
            ctx.probe("timer_tick")
            if not m["running"]:
                ctx.violation("tick_while_not_running", "timer", "%s ticked at %.6f while paused/stopped (value %r)"
                              % (n, now, kwargs.get("ticks")))
                return
            m["k"] += 1
            nominal = m["t0"] + m["k"] * m["interval"]
            if now + 1e-7 < nominal or (now - nominal > 1e-7 and not sim.late_ok(nominal, now)):
                ctx.violation("tick_drift", "timer", "%s: tick %d at %.9f, nominal %.9f (t0 %.9f interval %r)"
                              % (n, m["k"], now, nominal, m["t0"], m["interval"]))
            m["value"] += m["cfg"]["dir"]
            if done(m):
                ctx.violation("tick_beyond_end", "timer", "%s posted a tick with value %r although the end value %r is "
                              "reached" % (n, kwargs.get("ticks"), m["cfg"]["end"]))
            if kwargs.get("ticks") != m["value"]:
                ctx.violation("tick_value", "timer", "%s tick carries ticks=%r, model %r" % (n, kwargs.get("ticks"), m["value"]))
        elif what == "complete":
            # a periodic tick that reaches the end value completes instead of ticking
            if not m["running"] and m["auto_start"] is not None and sim.late_ok(m["auto_start"], now) and done(m):
                # automatic restart after a timed pause of a timer that already sits on its end value:
                # starting it completes it at once (same as an explicit start)
                m["auto_start"] = None
                return
            if not m["running"]:
                ctx.violation("complete_while_not_running", "timer", "%s completed at %.6f while not running" % (n, now))
                return
            m["k"] += 1
            nominal = m["t0"] + m["k"] * m["interval"]
            if now + 1e-7 < nominal or (now - nominal > 1e-7 and not sim.late_ok(nominal, now)):
                ctx.violation("tick_drift", "timer", "%s: completing tick %d at %.9f, nominal %.9f" % (n, m["k"], now, nominal))
            m["value"] += m["cfg"]["dir"]
            if not done(m):
                ctx.violation("complete_early", "timer", "%s completed with value %r, end value %r" % (n, m["value"], m["cfg"]["end"]))
            model_complete(n, m, now)
        elif what == "started":
            # only legal outside an op as the automatic restart after a timed pause
            if m["auto_start"] is None or not sim.late_ok(m["auto_start"], now):
                ctx.violation("unexpected_start", "timer", "%s started at %.6f without a request (auto restart due %r)"
                              % (n, now, m["auto_start"]))
            m["auto_start"] = None
            if done(m):
                pass
            else:
                m["running"] = True
                m["t0"] = now
                m["k"] = 0
                m["initial_tick"] = True
    tap_events(sim, on_event)

    pending_ops = {}

    def pre(_n, _k, **kwargs):
        in_op[0] = _n

    def post(_n, _k, **kwargs):
        apply_model(_n, _k)

    for _n in TIMERS:
        for _k in ("start", "stop", "pause", "pause0", "add", "subtract", "jump", "reset", "restart", "set_interval"):
            sim.machine.events.add_handler("%s_%s" % (_n, _k), pre, priority=10 ** 6, _n=_n, _k=_k)
            sim.machine.events.add_handler("%s_%s" % (_n, _k), post, priority=-10 ** 6, _n=_n, _k=_k)

    def apply(op):
        # the op is a control event; the model is advanced when MPF dispatches it (see pre/post)
        ctx.log("post", op["timer"], op["op"], t=loop.time())
        sim.machine.events.post("%s_%s" % (op["timer"], op["op"]))

    class _Noop:
        def __getattr__(self, name):
            return lambda *a, **k: None

    def apply_model(n, k):
        op = {"arg": TIMERS[n]["args"].get(k)}
        real = timers[n]
        t = _Noop()
        m = M[n]
        now = loop.time()
        ctx.log("top", n, k, op.get("arg"), t=now)
        try:
            if k == "start":
                t.start()
                if not m["running"]:
                    m["auto_start"] = None
                    if done(m):
                        model_complete(n, m, now)
                    else:
                        m["running"], m["t0"], m["k"] = True, now, 0
            elif k == "stop":
                t.stop()
                m["running"] = False
                m["auto_start"] = None
            elif k in ("pause", "pause0"):
                t.pause(op["arg"])
                m["running"] = False
                ctx.probe("timer_paused")
                # pausing again replaces a pending automatic restart; pause(0) leaves an earlier one in place
                if op["arg"]:
                    m["auto_start"] = now + op["arg"]
            elif k in ("add", "subtract"):
                if k == "add":
                    t.add(op["arg"])
                    m["value"] += op["arg"]
                else:
                    t.subtract(op["arg"])
                    m["value"] -= op["arg"]
                if done(m):
                    model_complete(n, m, now)
            elif k in ("jump", "reset", "restart"):
                target = op["arg"] if k == "jump" else m["cfg"]["start"]
                if k == "jump":
                    t.jump(target)
                elif k == "reset":
                    t.reset()
                else:
                    t.restart()
                m["value"] = target
                m["t0"], m["k"] = now, 0          # the tick phase restarts at a jump
                if done(m):
                    model_complete(n, m, now)
                elif k == "restart" and not m["running"]:
                    m["running"], m["auto_start"] = True, None
            elif k == "set_interval":
                t.set_tick_interval(op["arg"])
                m["interval"] = op["arg"]
                m["t0"], m["k"] = now, 0
        finally:
            in_op[0] = None
        t = real
        # value after the op
        if t.ticks != m["value"] and not (done(m) and not m["running"]):
            ctx.violation("value_after_op", "timer", "%s after %s(%r): ticks=%r, model %r" % (n, k, op.get("arg"), t.ticks, m["value"]))
        if bool(t.running) != m["running"]:
            ctx.violation("running_after_op", "timer", "%s after %s(%r): running=%r, model %r (value %r)"
                          % (n, k, op.get("arg"), t.running, m["running"], m["value"]))
        if done(m) and not m["running"]:
            m["value"] = t.ticks        # a completed timer keeps whatever value it ended on
        ctx.state("timer", k, m["running"], min(max(m["value"], -1), 8))

    ops = plan["ops"]
    idx = [0]
    fin = [False]

    def schedule_next():
        if idx[0] >= len(ops):
            fin[0] = True
            return
        op = ops[idx[0]]
        now = loop.time()
        t = now + op["dt"]
        if op["when"] == "tick":
            m = M[op["timer"]]
            if m["running"]:
                nxt = m["t0"] + (m["k"] + 1) * m["interval"]
                if nxt >= now:
                    t = max(now, nxt + op["delta"])
                    if op["delta"] == 0.0:
                        ctx.probe("op_on_deadline")
        sim.at(t, run_op)

    def run_op():
        op = ops[idx[0]]
        idx[0] += 1
        if op["op"] == "mode_restart":
            # the mode that owns the timers stops and starts again: the timers are stopped with the mode and come back
            # as configured (start value, configured interval, not running)
            ctx.probe("mode_restart")
            ctx.log("mode_restart", t=loop.time())
            restarting[0] = True
            mode.stop()

            def start_again():
                mode.start()
                sim.after(0.01, started)

            def started():
                restarting[0] = False
                for n, m in M.items():
                    m.update(value=m["cfg"]["start"], running=False, t0=None, k=0, interval=m["cfg"]["interval"],
                             auto_start=None, initial_tick=False)
                    if timers[n].ticks != m["value"] or timers[n].running:
                        ctx.violation("value_after_op", "timer", "%s after the restart of its mode: ticks=%r running=%r, "
                                      "configured start value %r" % (n, timers[n].ticks, timers[n].running, m["value"]))
                schedule_next()
            sim.after(0.05, start_again)
            return
        apply(op)
        schedule_next()

    schedule_next()
    guard = 0
    while not fin[0]:
        sim.run(0.5)
        guard += 1
        if guard > 400:
            raise AssertionError("timer op chain did not finish")
    sim.run_quiet(7.0)
    now = loop.time()
    for n, m in M.items():
        t = timers[n]
        if m["running"]:
            # a running timer must have ticked once per interval up to now (it would have completed otherwise)
            due = int((now - m["t0"] - 1e-6) / m["interval"])
            if m["k"] < due:
                ctx.violation("tick_missing", "timer", "%s running since %.6f (interval %r) ticked %d times by %.6f, "
                              "expected %d" % (n, m["t0"], m["interval"], m["k"], now, due))
        if bool(t.running) != m["running"]:
            ctx.violation("running_at_end", "timer", "%s: running=%r, model %r" % (n, t.running, m["running"]))
