"""C15 - Persistent data is durable, never torn, and survives write failures.

SUT: the real DataManager._writing_thread (real threads, baton-scheduled), FileManager.save/load, YamlInterface
(ruamel does the real serialisation), several data managers sharing FileManager.is_busy; in the "boot" family also
MachineVariables persistence/reload/expiry on a fully booted machine.
World: SimFS (process-crash model), simulated time, seeded interleaving of writer threads and loop thread.
"""
import copy
import types

from sim.harness import draw_knobs

ID = "C15"
LEVEL = "exploration"
RUNS = {"quick": 1200, "thorough": 60000}
WALL_CAP = {"quick": 90, "thorough": 3000}
RULE = ("one case = a history of save_all calls on 1-3 data managers (YAML-representable payloads) with a fate: "
        "clean shutdown at a tape-chosen instant, a process crash at a tape-chosen file-call boundary or inside a "
        "write, or quiet running with injected I/O errors (OSError on the n-th open/write/replace); the real writer "
        "threads are interleaved with the loop thread at every intercepted call by the seeded scheduler. Non-trivial = "
        "hit a reach probe (crash between temp write and rename, save during rate-limit sleep, two writers inside "
        "save at once, injected error fired, ...); distinct = distinct sequence of observed event kinds")
PROBES = ["save_during_rate_limit_sleep", "shutdown_with_dirty", "crash_between_tmp_and_rename", "crash_mid_write",
          "io_error_fired", "save_lock_contended", "writer_preempted", "file_observed", "reboot_reload",
          "expired_var_dropped", "reboot_after_crash"]
REAL = ["mpf.core.data_manager.DataManager (incl. _writing_thread as a real thread)", "mpf.core.file_manager.FileManager",
        "mpf.file_interfaces.yaml_interface.YamlInterface + ruamel.yaml", "mpf.core.machine_vars.MachineVariables (boot family)",
        "MachineController boot (boot family)"]
STUBS = ["filesystem (SimFS behind yaml_interface.open, file_manager.os, data_manager.os)",
         "time.sleep / threading.Event / _thread.start_new_thread of data_manager (baton scheduler, simulated time)",
         "event loop (SimLoop)", "stub machine object in the standalone family"]
ASSUMPTIONS = ["process-crash model: completed file calls survive, an interrupted write leaves a prefix; fsync/rename "
               "reordering after power loss is not held against MPF",
               "clean shutdown = thread_stopper is set and the writer threads are allowed to run to completion",
               "Python-level atomicity between intercepted calls (the writer only touches shared state through them)"]
STATE_ABSTRACTION = "(fate, number of managers, versions on disk per manager, busy flag)"
LEVEL_TEXT = ("Seeded exploration of writer-thread/loop-thread interleavings, crash points and I/O error sites on the real "
              "DataManager/FileManager/YamlInterface code over a simulated filesystem; crash points are sampled per history "
              "(every file-call boundary is a candidate), not enumerated exhaustively.")

ROOT = "/simroot"


def warm():
    from sim import ensure_repo_import
    ensure_repo_import()
    import mpf.core.data_manager  # noqa
    import mpf.core.file_manager  # noqa
    from mpf.core.file_manager import FileManager
    FileManager.init()


# ------------------------------------------------------------------------------------------
# payloads

_STRS = ["", "a", "yes", "no", "null", "~", "1e3", "0o14", "0x1F", "1_000", "12:30:00", "2001-01-01", "- x", "a: b",
         "#c", "'q'", '"dq"', "multi\nline\ntext", " lead", "trail ", "tab\there", "ünï©ødé ✓ 日本", "%", "&*!|>", "{}", "[]",
         "true", "3.0", "-", "?", "a" * 300, "emoji 😀", " nbsp"]


def _gen_value(ch, depth):
    k = ch.weighted("vt", [("int", 4), ("str", 4), ("float", 2), ("bool", 1), ("none", 1), ("list", 2 if depth < 3 else 0),
                           ("dict", 2 if depth < 3 else 0), ("bigint", 1)])
    if k == "int":
        return ch.randint("int", -1000, 100000)
    if k == "bigint":
        return ch.pick("bigint", [2 ** 63, -2 ** 70, 10 ** 30])
    if k == "str":
        return ch.pick("str", _STRS)
    if k == "float":
        return ch.pick("float", [0.0, -0.0, 1.5, 1e-300, 1e300, 3.14159, 100000.0, float("inf"), -float("inf"), 0.1])
    if k == "bool":
        return bool(ch.choice("bool", 2))
    if k == "none":
        return None
    if k == "list":
        return [_gen_value(ch, depth + 1) for _ in range(ch.choice("llen", 4))]
    return {("k%d" % i if ch.flag("plainkey", 0.7) else ch.pick("skey", _STRS[1:20])): _gen_value(ch, depth + 1)
            for i in range(ch.choice("dlen", 4))}


def _gen_payload(ch, version):
    d = {"__ver": version}
    for i in range(1 + ch.choice("nkeys", 5)):
        d["key%d" % i] = _gen_value(ch, 0)
    return d


def plan(ch, tier):
    if ch.flag("family_boot", 0.25):
        return _plan_boot(ch)
    return _plan_standalone(ch)


def _plan_boot(ch):
    knobs = draw_knobs(ch, p_faulty=0.4)
    ops = []
    # variables declared in the machine config (machine_vars: section) with an initial value; persist is the spec's
    # default (true), given explicitly or left out
    declared = {}
    for n in ("v0", "v1", "v2"):
        if ch.flag("declared_" + n, 0.35):
            vt = ch.pick("decl_type", ["int", "str", "float"])
            declared[n] = {"initial_value": {"int": 4, "str": "5", "float": 0.5}[vt], "value_type": vt}
            if ch.flag("decl_persist_explicit", 0.5):
                declared[n]["persist"] = True
    for _ in range(1 + ch.choice("nops", 7)):
        k = ch.weighted("bop", [("set", 6), ("remove", 1)])
        op = {"op": k, "name": ["v0", "v1", "v2", "v3", "master_volume"][ch.choice("vname", 5)],
              "dt": ch.pick("dt", [0.0, 0.01, 0.3, 0.9, 1.0, 1.1, 2.0, 30.0, 45.0, 4.0])}
        if k == "set":
            op["value"] = _gen_value(ch, 1)
            if op["name"] == "master_volume":
                op["value"] = ch.pick("volume", [0.0, 0.3, 1.0, 0.5])
            elif op["name"] in declared and ch.flag("empty_value", 0.5):
                # a variable that has a configured initial value is set to an "empty" value of its kind
                op["value"] = ch.pick("empty", [0, "", 0.0, False])
            # persistence is a fixed attribute of a name (v3 is the volatile one): turning a persistent variable
            # into a volatile one later is outside the statement
            op["persist"] = op["name"] != "v3"
            op["expire"] = ch.pick("expire", [None, None, 5, 60, 3600, 86400])
            # a variable is configured once and then set many times (credits: "keep for an hour after the last
            # change"); only some later sets configure it again
            op["configure"] = ch.flag("reconfigure", 0.35)
        ops.append(op)
    fate = ch.weighted("fate", [("shutdown", 3), ("crash", 2)])
    off_time = ch.pick("off_time", [0.0, 3.0, 59.0, 61.0, 3599.0, 3700.0, 90000.0, 20.0, 40.0])
    if ch.flag("keep_alive", 0.3):
        # the way the credits mode uses expiry: configured once ("keep for E seconds after the last change"), set again
        # and again, each set well inside the window of the previous one; switched off for a fraction of E
        e = ch.pick("ka_expire", [60, 3600, 5])
        name = "v%d" % ch.choice("ka_name", 3)
        for i in range(2 + ch.choice("ka_sets", 3)):
            ops.append({"op": "set", "name": name, "dt": e * ch.pick("ka_dt", [0.5, 0.8, 0.3, 0.95]) if i else 0.3,
                        "value": ch.pick("ka_value", [2, 4, 4, 0, "x"]), "persist": True, "expire": e,
                        "configure": i == 0 or ch.flag("ka_reconfigure", 0.15)})
        off_time = e * ch.pick("ka_off", [0.3, 0.6, 0.9, 1.2, 0.1])
    return {"family": "boot", "knobs": knobs, "ops": ops, "fate": fate, "declared": declared, "off_time": off_time,
            "after_reboot": [["v0", "v1", "v2", "master_volume"][ch.choice("rname", 4)] for _ in range(ch.choice("n_after", 3))],
            "p_yield": ch.pick("p_yield", [0.0, 0.15, 0.35]),
            "shutdown_dt": ch.pick("shutdown_dt", [0.0, 0.05, 0.5, 1.0, 2.5]),
            "crash_n": 1 + ch.choice("crash_n", 30)}


def _plan_standalone(ch):
    knobs = draw_knobs(ch, p_faulty=0.5)
    nm = ch.weighted("nmgr", [(1, 3), (2, 3), (3, 2)])
    ops = []
    ver = 0
    n = 1 + ch.choice("nops", 8)
    last = {}
    twins = {1: [True, 1.0], True: [1, 1.0], 0: [False, 0.0], False: [0, 0.0]}
    for _ in range(n):
        mgr = ch.choice("mgr", nm)
        dt = ch.pick("dt", [0.0, 0.0, 0.01, 0.1, 0.3, 0.5, 0.9, 0.99, 1.0, 1.01, 1.2, 2.0, 3.5])
        kind = ch.weighted("save_kind", [("new", 6), ("resave", 1.5), ("twin", 1.5)]) if mgr in last else "new"
        if kind == "new":
            ver += 1
            data = _gen_payload(ch, ver)
            data["flag"] = ch.pick("flag", [1, True, 0, False, 1.0, 0.0, "x"])
        else:
            # the same content handed over again (what set_machine_var(x, x) does), or content that is ==-equal to
            # the previous one but differs in the type of one value (1 -> True -> 1.0)
            data = copy.deepcopy(last[mgr])
            if kind == "twin":
                cur = data["flag"]
                key = next((k for k in twins if k == cur and type(k) is type(cur)), None)
                if key is None:
                    alts = [1, True] if cur == 1.0 else ([0, False] if cur == 0.0 and not isinstance(cur, str) else [])
                else:
                    alts = twins[key]
                if alts:
                    data["flag"] = alts[ch.choice("twin_alt", len(alts))]
        last[mgr] = data
        ops.append({"op": "save", "mgr": mgr, "dt": dt, "data": data, "kind": kind})
    fate = ch.weighted("fate", [("shutdown", 4), ("crash", 4), ("quiet", 3)])
    p = {"family": "standalone", "knobs": knobs, "nmgr": nm, "ops": ops, "fate": fate,
         "start_delay": ch.pick("start_delay", [0.0, 0.2, 0.99, 1.0, 1.5, 3.0]),
         "p_yield": ch.pick("p_yield", [0.0, 0.15, 0.35, 0.7]),
         "min_wait": ch.pick("min_wait", [1, 1, 1, 0.3]),
         "post_failure_resave": ch.flag("post_failure_resave", 0.5)}
    if fate == "shutdown":
        p["shutdown_dt"] = ch.pick("shutdown_dt", [0.0, 0.001, 0.05, 0.3, 0.9, 1.0, 1.1, 2.5, 6.0])
    elif fate == "crash":
        # crash at the k-th file call counted from a tape-chosen moment, or at a time
        p["crash"] = ch.weighted("crash_kind", [("fileop", 5), ("midwrite", 2), ("time", 2)])
        p["crash_n"] = 1 + ch.choice("crash_n", 5 * len(ops) + 3)
        p["crash_dt"] = ch.pick("crash_dt", [0.0, 0.01, 0.5, 1.0, 1.3, 2.2, 4.0])
    # injected I/O errors (only in a share of the runs, so the fault-free oracle stays strict)
    p["io_faults"] = []
    # a slow disk: one file call of a writer takes seconds (SD card, network share) while it holds whatever it holds
    p["slow_io"] = [1 + ch.choice("slow_n", 8), ch.pick("slow_secs", [1.5, 2.5, 0.5, 6.0])] if ch.flag("slow_disk", 0.25) else None
    # the injected error carries an errno (ENOSPC) or none at all
    p["io_errno"] = ch.pick("io_errno", [28, 28, 5, -1])
    if ch.flag("io_faulty", 0.35):
        for _ in range(1 + ch.choice("nio", 2)):
            p["io_faults"].append([ch.pick("io_kind", ["open_w", "write", "replace"]), 1 + ch.choice("io_n", 6)])
    return p


# ------------------------------------------------------------------------------------------


def _eq(a, b):
    """Deep equality that treats -0.0 == 0.0 and int/float of equal value as equal only if same type."""
    if type(a) is not type(b):
        return False
    if isinstance(a, dict):
        return a.keys() == b.keys() and all(_eq(a[k], b[k]) for k in a)
    if isinstance(a, list):
        return len(a) == len(b) and all(_eq(x, y) for x, y in zip(a, b))
    return a == b


class World:
    """SimLoop + baton scheduler + SimFS + shims installed on MPF's modules."""

    def __init__(self, ctx, plan):
        import asyncio
        from sim.loop import SimLoop
        from sim.threads import BatonScheduler, install
        from sim.fs import SimFS
        import mpf.core.data_manager as dm_mod
        import mpf.core.file_manager as fm_mod
        import mpf.file_interfaces.yaml_interface as yi_mod
        self.ctx = ctx
        self.loop = SimLoop(ctx.rt)
        asyncio.set_event_loop(self.loop)
        k = plan["knobs"]
        self.loop.p_stall = k["p_stall"]
        self.loop.shuffle_ties = k["shuffle_ties"]
        self.loop.max_stall_index = k["max_stall_index"]
        self.sched = BatonScheduler(self.loop, ctx.rt, ctx)
        self.sched.p_yield = plan["p_yield"]
        self.fs = SimFS(ctx.rt, ROOT)
        install(dm_mod, self.sched)
        install(fm_mod, self.sched)
        from sim.threads import replace_locks
        replace_locks(fm_mod.FileManager, self.sched)
        dm_mod.os = self.fs.os_shim()
        fm_mod.os = self.fs.os_shim()
        yi_mod.open = self.fs.open
        self.dm_mod = dm_mod
        self.fm_mod = fm_mod
        fm_mod.FileManager.is_busy = False
        self.crashed = False
        self.in_save = 0
        self.loop_error = None
        self.loop.set_exception_handler(self._on_loop_error)

    def _on_loop_error(self, loop, context):
        if self.loop_error is None:
            self.loop_error = context
        try:
            loop.stop()
        except RuntimeError:
            pass

    def run(self, dt):
        import asyncio
        try:
            self.loop.run_until_complete(asyncio.sleep(dt))
        except RuntimeError:
            if self.loop_error is None:
                raise
        if self.loop_error is not None:
            exc = self.loop_error.get("exception")
            raise exc if exc is not None else RuntimeError(str(self.loop_error))


def _stub_machine(world, min_wait):
    m = types.SimpleNamespace()
    m.config = {"mpf": {"paths": {}}, "logging": {"console": {"data_manager": "none"}, "file": {"data_manager": "none"}}}
    m.machine_path = ROOT + "/machine"
    m.options = {"production": False}
    m.is_shutting_down = False
    m.thread_stopper = world.dm_mod.threading.Event()
    return m


def execute(ctx, plan):
    if plan.get("family") == "boot":
        return _execute_boot(ctx, plan)
    world = World(ctx, plan)
    try:
        _execute(ctx, plan, world)
    finally:
        ctx.sim_s += world.loop.time()
        ctx.steps += world.loop.steps
        if world.loop.stat_stalls:
            ctx.fault("loop_stall", world.loop.stat_stalls)
        if world.sched.stat_preempts:
            ctx.fault("thread_preemption", world.sched.stat_preempts)
        if not world.sched.killed:
            world.sched.kill_all()


def _execute(ctx, plan, world):
    from mpf.core.file_manager import FileManager
    loop, sched, fs = world.loop, world.sched, world.fs
    DataManager = world.dm_mod.DataManager
    machine = _stub_machine(world, plan["min_wait"])
    nm = plan["nmgr"]
    names = ["dm%d" % i for i in range(nm)]
    for n in names:
        machine.config["mpf"]["paths"][n] = "data/%s.yaml" % n
    for kind, n in plan["io_faults"]:
        fs.faults.setdefault(kind, set()).add(n)
    fs.fault_errno = plan.get("io_errno", 28)
    slow = {"n": 0}
    slow_extra = (plan.get("slow_io") or [0, 0.0])[1]        # a slow file call stretches every bound by its duration

    saved = {n: [] for n in names}          # versions handed to save_all, in order (index = position)
    last_seen = {n: -1 for n in names}       # index of the newest version ever observed on disk
    fault_after_last_save = {n: False for n in names}
    state = {"crash_armed": False, "crash_count": 0}

    def parse(path):
        """Parse a file of the simulated disk with MPF's own loader. Returns (ok, data)."""
        try:
            data = FileManager.load(path, halt_on_error=True)
        except Exception as e:      # pylint: disable=broad-except
            return False, repr(e)
        return True, data

    def observe(n, where):
        path = machine.machine_path + "/data/%s.yaml" % n
        if path not in fs.files:
            if last_seen[n] >= 0:
                ctx.violation("file_vanished", "vanished", "%s: file existed with version index %d and is gone (%s)"
                              % (n, last_seen[n], where))
            return
        ctx.probe("file_observed")
        ok, data = parse(path)
        if not ok or not isinstance(data, dict):
            ctx.violation("torn_file", "unparseable", "%s: file on disk does not parse (%s): %r; content=%r"
                          % (n, where, data, fs.files[path][:200]))
            return
        cands = [i for i, v in enumerate(saved[n]) if v.get("__ver") == data.get("__ver")]
        if not cands:
            ctx.violation("torn_file", "unknown_version", "%s: file holds %r which was never saved (%s)"
                          % (n, data.get("__ver"), where))
            return
        # the same content may have been handed over more than once: read the file as the earliest matching save that
        # is not older than what was already seen
        match = [i for i in cands if _eq(saved[n][i], data)]
        if not match:
            ctx.violation("not_as_saved", "mismatch", "%s: version %r on disk differs from what was saved (%s): "
                          "disk=%r saved=%r" % (n, data.get("__ver"), where, data, saved[n][cands[-1]]))
            return
        # what is on disk cannot tell two hand-overs of identical content apart: read it as the latest of them
        idx = match[-1]
        if idx < last_seen[n]:
            ctx.violation("went_back", "older_version", "%s: file went back from version index %d to %d (%s)"
                          % (n, last_seen[n], idx, where))
        last_seen[n] = max(last_seen[n], idx)

    changed = set()
    fs.on_change = lambda path: changed.add(path)

    def observe_changed(where):
        for path in sorted(changed):
            base = path.rsplit("/", 1)[1]
            if not base.startswith("_") and base.endswith(".yaml"):
                observe(base[:-5], where)
        changed.clear()

    def do_crash(where):
        from sim.threads import SimKilled
        ctx.log("crash", where, t=loop.time())
        world.crashed = True
        fs.frozen = True
        if sched.current() is not None:
            # we are on a writer thread: unwind it; the loop thread finishes the kill
            sched.killed = True
            raise SimKilled()

    fs.do_crash = do_crash

    def on_fs_op(kind, path):
        th = sched.current()
        base = path.rsplit("/", 1)[1]
        if th is not None:
            ctx.log("fsop", th.name, kind, base, t=loop.time())
        if kind == "open_w" and fs.open_write_files:
            ctx.probe("two_writers_in_save")
        if getattr(sched, "stat_lock_waits", 0):
            ctx.probe("save_lock_contended")
            sched.stat_lock_waits = 0
        if state["crash_armed"] and plan.get("crash") == "fileop" and th is not None:
            state["crash_count"] += 1
            if state["crash_count"] >= plan["crash_n"]:
                state["crash_armed"] = False
                if kind == "replace":
                    ctx.probe("crash_between_tmp_and_rename")
                do_crash("before %s %s" % (kind, base))
        if plan.get("slow_io") and th is not None:
            slow["n"] += 1
            if slow["n"] == plan["slow_io"][0]:
                ctx.fault("slow_disk")
                sched.sleep(plan["slow_io"][1])
                if sched.killed:
                    from sim.threads import SimKilled
                    raise SimKilled()
        sched.yield_point("fs_" + kind)

    fs.on_op = on_fs_op

    def mid_write():
        if state["crash_armed"] and plan.get("crash") == "midwrite":
            state["crash_count"] += 1
            if state["crash_count"] >= plan["crash_n"]:
                state["crash_armed"] = False
                ctx.probe("crash_mid_write")
                return True
        return False

    fs.crash_mid_write = mid_write
    sched.on_step = lambda th: (observe_changed("after step of %s" % th.name),
                                ctx.probe("writer_preempted") if sched.stat_preempts else None)

    def thread_died(th, exc, tb):
        if machine.thread_stopper._flag and isinstance(exc, OSError) and fs.fired_faults:
            # an injected I/O error hit the final flush at shutdown: the thread ends with the error, there is
            # no later save it could have stopped - not covered by the statement
            ctx.log("writer_died_at_shutdown", th.name, t=loop.time())
            return
        ctx.violation("writer_thread_died", type(exc).__name__, "writer thread died: %r\n%s" % (exc, tb[-1500:]))
    sched.thread_died = thread_died

    # ---- build the data managers (this starts the real writer threads) -------------------------
    mgrs = {}
    for n in names:
        mgrs[n] = DataManager(machine, n, min_wait_secs=plan["min_wait"])
    world.run(plan["start_delay"])

    def do_save(op):
        n = names[op["mgr"] % nm]
        th = sched.threads[names.index(n)]
        if th.wake_handle is not None and th.waiting_on is None and not th.finished:
            ctx.probe("save_during_rate_limit_sleep")
        data = copy.deepcopy(op["data"])
        saved[n].append(copy.deepcopy(data))
        fault_after_last_save[n] = False
        ctx.log("save_all", n, data["__ver"], t=loop.time())
        mgrs[n].save_all(data)

    if plan["fate"] == "crash" and plan["crash"] in ("fileop", "midwrite"):
        state["crash_armed"] = True
    for op in plan["ops"]:
        if world.crashed:
            break
        if op["dt"]:
            world.run(op["dt"])
        if world.crashed:
            break
        do_save(op)
        ctx.state(plan["fate"], nm, tuple(last_seen[n] for n in names), bool(FileManager.is_busy))

    fate = plan["fate"]
    if fate == "crash" and not world.crashed:
        state["crash_armed"] = True
        if plan["crash"] == "time":
            world.run(plan["crash_dt"])
            if not world.crashed:
                do_crash("at time")
        else:
            # run until the armed crash fires (or nothing more happens)
            for _ in range(40):
                world.run(0.25)
                if world.crashed:
                    break
            if not world.crashed:
                state["crash_armed"] = False
                do_crash("at time (armed file-call count not reached)")
    if world.crashed:
        sched.kill_all()
        fs.frozen = True
        for n in names:
            observe(n, "after crash")
        # whatever survived must also load cleanly on the next boot
        ctx.fault("process_crash")
        _note_faults(ctx, fs)
        return

    if fate == "shutdown":
        world.run(plan["shutdown_dt"])
        ctx.log("shutdown", t=loop.time())
        try:        # reach probe only; must not depend on the data manager's internals being there
            if any(mgrs[n]._dirty.is_set() for n in names):
                ctx.probe("shutdown_with_dirty")
        except AttributeError:
            pass
        machine.thread_stopper.set()
        # clean shutdown: the writer threads are allowed to run to completion
        loop.stall_enabled = False
        for _ in range(200):
            if sched.all_finished():
                break
            world.run(0.25)
        if not sched.all_finished():
            ctx.violation("writer_never_stops", "shutdown", "writer threads still running 50 simulated seconds after "
                          "thread_stopper was set (is_busy=%r)" % FileManager.is_busy)
        observe_changed("after shutdown")
        for n in names:
            if not saved[n]:
                continue
            if fs.fired_faults and fault_after_last_save[n] is not False:
                continue
            if _fault_may_have_hit_last(fs, plan):
                # an injected I/O error may legitimately have eaten the last write; durability is then judged in
                # the 'quiet' fate (error isolation), not here
                continue
            if last_seen[n] != len(saved[n]) - 1:
                path = machine.machine_path + "/data/%s.yaml" % n
                ctx.violation("lost_on_clean_shutdown", "last_save_not_on_disk",
                              "%s: after clean shutdown the file holds version index %d (%s) but the last save_all "
                              "was index %d; saves at %s" % (n, last_seen[n], "exists" if path in fs.files else "no file",
                                                             len(saved[n]) - 1, [v["__ver"] for v in saved[n]]))
    else:
        # quiet: enough simulated time for every pending write, with stalls off (faults have stopped)
        loop.stall_enabled = False
        world.run(8.0 + slow_extra)
        observe_changed("quiet end")
        if fs.fired_faults:
            ctx.probe("io_error_fired")
            # error isolation: one more save after the failures must reach the disk
            for n in names:
                ver = 1000 + names.index(n)
                data = {"__ver": ver, "after": "failure"}
                if plan.get("post_failure_resave") and saved[n]:
                    # the content whose write may just have failed is handed over once more
                    data = copy.deepcopy(saved[n][-1])
                    ver = data["__ver"]
                    ctx.probe("resave_after_failure")
                saved[n].append(copy.deepcopy(data))
                ctx.log("save_all", n, ver, t=loop.time())
                mgrs[n].save_all(data)
            fs.faults = {}
            world.run(8.0 + slow_extra)
            observe_changed("after post-failure save")
            for n in names:
                if last_seen[n] != len(saved[n]) - 1:
                    ctx.violation("save_after_failure_lost", "stuck_after_io_error",
                                  "%s: a save_all issued after an injected I/O error (%s) never reached the disk "
                                  "(is_busy=%r)" % (n, fs.fired_faults, FileManager.is_busy))
        else:
            for n in names:
                if saved[n] and last_seen[n] != len(saved[n]) - 1:
                    ctx.violation("never_written", "quiet", "%s: 8 quiet seconds after the last save_all the file "
                                  "holds version index %d, last saved index %d" % (n, last_seen[n], len(saved[n]) - 1))
        machine.thread_stopper.set()
        for _ in range(100):
            if sched.all_finished():
                break
            world.run(0.25)
        sched.kill_all()
    _note_faults(ctx, fs)


def _fault_may_have_hit_last(fs, plan):
    return bool(fs.fired_faults)


def _note_faults(ctx, fs):
    for kind, n in fs.fired_faults:
        ctx.fault("io_error_" + kind)


# ------------------------------------------------------------------------------------------
# boot family: real machine, MachineVariables persistence, reboot after clean shutdown or crash


def _execute_boot(ctx, plan):
    import os
    from sim import VERIF
    from sim.fs import SimFS
    from sim.threads import BatonScheduler, install, replace_locks, SimKilled
    import mpf.core.data_manager as dm_mod
    import mpf.core.file_manager as fm_mod
    import mpf.file_interfaces.yaml_interface as yi_mod
    from mpf.core.file_manager import FileManager

    data_root = os.path.join(VERIF, "machines", "c15", "data")
    fs = SimFS(ctx.rt, data_root)
    path = os.path.join(data_root, "machine_vars.yaml")
    env = {"sched": None, "crashed": False}

    def setup(sim):
        sched = BatonScheduler(sim.loop, ctx.rt, ctx)
        sched.p_yield = plan["p_yield"]
        env["sched"] = sched
        install(dm_mod, sched)
        install(fm_mod, sched)
        replace_locks(fm_mod.FileManager, sched)
        dm_mod.os = fs.os_shim()
        fm_mod.os = fs.os_shim()
        yi_mod.open = fs.open
        fm_mod.FileManager.is_busy = False
        sim.machine.thread_stopper = dm_mod.threading.Event()
        sched.on_step = lambda th: observe("after writer step")

        def died(th, exc, tb):
            ctx.violation("writer_thread_died", type(exc).__name__, "writer thread died: %r\n%s" % (exc, tb[-1500:]))
        sched.thread_died = died

    def factory(machine, name):
        if name == "machine_vars":
            return dm_mod.DataManager(machine, name)
        return None

    snapshots = [{}]            # every version handed to save_all (observed at the DataManager API), oldest first
    last_seen = [0]
    shadow = {}
    orig_save_all = dm_mod.DataManager.save_all

    model_snaps = [None]        # what the model says the persisted subset is at each hand-over (None: not modelled yet)

    def save_all_tap(self, data):
        snapshots.append(copy.deepcopy(data))
        model_snaps.append(copy.deepcopy(persisted()) if env.get("modelled") else None)
        ctx.log("save_all", sorted(data.keys()), t=self.machine.clock.get_time())
        return orig_save_all(self, data)
    dm_mod.DataManager.save_all = save_all_tap

    def persisted():
        return {n: {"value": v["value"], "expire": v["timeout"], "expire_secs": v["expire_secs"]}
                for n, v in shadow.items() if v["persist"]}

    def same_snapshot(a, b):
        if a.keys() != b.keys():
            return False
        for k in a:
            x, y = a[k], b[k]
            if not _eq(x["value"], y["value"]) or x["expire_secs"] != y["expire_secs"]:
                return False
            if (x["expire"] is None) != (y["expire"] is None):
                return False
            if x["expire"] is not None and abs(x["expire"] - y["expire"]) > 1e-6:
                return False
        return True

    def find_snapshot(data):
        # the same content can have been handed over more than once (set, remove -> same dict as before): read the
        # file as the earliest matching version that is not older than what was already seen, else as an older one
        older = None
        for i in range(len(snapshots)):
            if same_snapshot(snapshots[i], data):
                if i >= last_seen[0]:
                    return i
                older = i
        return older

    def observe(where):
        if path not in fs.files:
            if last_seen[0] > 0 and any(snapshots[last_seen[0]]):
                ctx.violation("file_vanished", "vanished", "machine_vars.yaml is gone (%s)" % where)
            return None
        ctx.probe("file_observed")
        try:
            data = FileManager.load(path, halt_on_error=True)
        except Exception as e:      # pylint: disable=broad-except
            ctx.violation("torn_file", "unparseable", "machine_vars.yaml does not parse (%s): %r content=%r"
                          % (where, e, fs.files[path][:200]))
            return None
        if data is None:
            data = {}
        idx = find_snapshot(data)
        if idx is None:
            ctx.violation("torn_file", "unknown_version", "machine_vars.yaml holds %r which matches no state the "
                          "persisted variables ever had (%s); states: %r" % (data, where, snapshots[-3:]))
            return None
        if idx < last_seen[0] and not same_snapshot(snapshots[idx], snapshots[last_seen[0]]):
            ctx.violation("went_back", "older_version", "machine_vars.yaml went back from state %d to %d (%s): file %r; "
                          "states %r" % (last_seen[0], idx, where, data, snapshots[idx:]))
        last_seen[0] = max(last_seen[0], idx)
        return data

    def do_crash(where):
        ctx.log("crash", where, t=sim.now)
        env["crashed"] = True
        fs.frozen = True
        if env["sched"].current() is not None:
            env["sched"].killed = True
            raise SimKilled()
    fs.do_crash = do_crash
    state = {"armed": plan["fate"] == "crash", "count": 0}

    def on_fs_op(kind, p):
        sched = env["sched"]
        th = sched.current()
        if th is not None:
            ctx.log("fsop", th.name, kind, p.rsplit("/", 1)[1], t=sim.now)
            if state["armed"]:
                state["count"] += 1
                if state["count"] >= plan["crash_n"]:
                    state["armed"] = False
                    if kind == "replace":
                        ctx.probe("crash_between_tmp_and_rename")
                    do_crash("before %s" % kind)
        sched.yield_point("fs_" + kind)
    fs.on_op = on_fs_op

    # ---- boot 1 -----------------------------------------------------------------------------
    declared = plan.get("declared") or {}
    patches = {"machine_vars": copy.deepcopy(declared)} if declared else None
    sim = ctx.new_sim("c15", pre_boot=setup, data_manager_factory=factory, patches=patches)
    sim.boot()
    if declared:
        ctx.probe("declared_machine_vars")
    m = sim.machine
    sched = env["sched"]
    # variables MPF itself persists (e.g. master_volume from mpfconfig.yaml) are part of the persisted subset
    for n, v in m.variables.machine_vars.items():
        if v["persist"]:
            shadow[n] = {"value": copy.deepcopy(v["value"]), "persist": True, "expire_secs": v["expire_secs"],
                         "timeout": v["timeout"]}
    configured = {}
    for op in plan["ops"]:
        if env["crashed"]:
            break
        if op["dt"]:
            sim.run(op["dt"])
        if env["crashed"]:
            break
        now_ts = sim.clock.get_datetime().timestamp()
        name = op["name"]
        shadow_before = copy.deepcopy(persisted())
        env["modelled"] = True
        if op["op"] == "set":
            ctx.log("set", name, op["persist"], op["expire"], t=sim.now)
            configure = op.get("configure", True) or name not in configured
            expire = op["expire"] if configure else configured[name]
            configured[name] = expire
            timeout = (expire + now_ts) if expire else None
            shadow[name] = {"value": copy.deepcopy(op["value"]), "persist": op["persist"], "expire_secs": expire,
                            "timeout": timeout}
            if configure:
                m.variables.configure_machine_var(name, persist=op["persist"], expire_secs=expire)
            else:
                ctx.probe("set_without_reconfigure")
            m.variables.set_machine_var(name, copy.deepcopy(op["value"]))
        else:
            ctx.log("remove", name, t=sim.now)
            shadow.pop(name, None)
            configured.pop(name, None)
            m.variables.remove_machine_var(name)
        # a change of a persistent variable's value is handed to the data manager at once
        if op["op"] == "set" and op["persist"]:
            before = shadow_before.get(name)
            # "change" in MPF's (and Python's) sense: 0.0 == False == 0 is no change and needs no write
            if before is None or not _py_equal(before["value"], op["value"]):
                if op["value"] is not None or before is not None:
                    last = snapshots[-1].get(name) if len(snapshots) > 1 else None
                    if last is None or not _py_equal(last.get("value"), op["value"]):
                        ctx.violation("persist_subset_wrong", "machine_vars", "after %r the data handed to the data "
                                      "manager is %r" % (op, snapshots[-1]))
        ctx.state("boot", plan["fate"], len(persisted()), last_seen[0])
    if plan["fate"] == "shutdown" and not env["crashed"]:
        sim.run(plan["shutdown_dt"])
        ctx.log("shutdown", t=sim.now)
        try:        # reach probe only; must not depend on the data manager's internals being there
            if m.variables.machine_var_data_manager._dirty.is_set():
                ctx.probe("shutdown_with_dirty")
        except AttributeError:
            pass
        m.thread_stopper.set()
        sim.loop.stall_enabled = False
        for _ in range(100):
            if sched.all_finished():
                break
            sim.run(0.25)
        if not sched.all_finished():
            ctx.violation("writer_never_stops", "shutdown", "writer thread still running 25 s after shutdown")
        data = observe("after clean shutdown")
        if len(snapshots) > 1:
            if data is None:
                ctx.violation("lost_on_clean_shutdown", "last_save_not_on_disk", "no machine_vars.yaml after clean "
                              "shutdown although %r was handed to the data manager" % (snapshots[-1],))
            elif not same_snapshot(data, snapshots[-1]):
                ctx.violation("lost_on_clean_shutdown", "last_save_not_on_disk", "after clean shutdown the file holds "
                              "%r but the last data handed to the data manager was %r" % (data, snapshots[-1]))
    else:
        if not env["crashed"]:
            for _ in range(12):
                sim.run(0.25)
                if env["crashed"]:
                    break
            if not env["crashed"]:
                do_crash("at time")
        sched.kill_all()
        ctx.fault("process_crash")
        ctx.probe("reboot_after_crash")
    if not sched.killed:
        sched.kill_all()
    fs.frozen = False
    fs.on_op = None
    fs.open_write_files.clear()
    t_end = sim.now
    disk = observe("before reboot")
    sim.stop()

    # ---- boot 2 on whatever is on the simulated disk ------------------------------------------------
    env["crashed"] = False
    state["armed"] = False
    sim2 = ctx.new_sim("c15", pre_boot=setup, data_manager_factory=factory, start_time=t_end + plan["off_time"],
                       knobs={}, patches=patches)
    sim2.boot()
    ctx.probe("reboot_reload")
    boot_ts = sim2.clock.get_datetime().timestamp()
    boot_start_ts = boot_ts - (sim2.now - (t_end + plan["off_time"]))
    m2 = sim2.machine
    # mpfconfig.yaml declares master_volume (initial value 0.5) for every machine
    declared_all = dict(declared, master_volume={"initial_value": 0.5})
    disk_idx = find_snapshot(disk) if disk else None
    disk_model = model_snaps[disk_idx] if disk_idx is not None and disk_idx < len(model_snaps) else None
    for name, st in (disk or {}).items():
        got = m2.variables.get_machine_var(name)
        present = m2.variables.is_machine_var(name)
        exp = st.get("expire")
        if disk_model is not None and name in disk_model and _eq(disk_model[name]["value"], st["value"]):
            # the expiry time is "last set + expire_secs" as the model knows it, not whatever the file says
            mexp = disk_model[name]["expire"]
            if (mexp or 0) and exp and abs(mexp - exp) > 1.0:
                ctx.probe("disk_expiry_differs_from_model")
            exp = mexp
        if exp and exp < boot_start_ts - 0.002:      # (2 ms: float noise of the timestamps)
            ctx.probe("expired_var_dropped")
            if present and name in declared_all:
                # an expired variable that the config declares starts over from its configured initial value
                init = declared_all[name]["initial_value"]
                if not _eq(got, init):
                    ctx.violation("expired_var_reloaded", "expiry", "%s expired at %.3f; after the boot at %.3f it should "
                                  "start from its initial value %r but is %r" % (name, exp, boot_ts, init, got))
            elif present:
                ctx.violation("expired_var_reloaded", "expiry", "%s expired at %.3f but was reloaded at boot time %.3f "
                              "with value %r" % (name, exp, boot_ts, got))
        elif exp and exp <= boot_ts + 0.002:
            pass    # expires while MPF boots: either outcome is fine
        else:
            if not present or not _eq(got, st["value"]):
                ctx.violation("persisted_var_not_reloaded", "reload", "%s=%r was on disk (expire %r, boot at %.3f) but "
                              "after reboot is_machine_var=%r value=%r" % (name, st["value"], exp, boot_ts, present, got))
    # ---- the reloaded variables are still persistent: a change after the reboot is handed over as well -----------
    for i, name in enumerate(plan.get("after_reboot") or []):
        on_disk = name in (disk or {}) and m2.variables.is_machine_var(name)
        if not (on_disk or name in declared or name == "master_volume"):
            continue
        value = 0.25 + i / 16.0 if name == "master_volume" else "after-reboot-%d" % i
        ctx.probe("set_after_reboot")
        sim2.run(0.3)
        m2.variables.set_machine_var(name, value)
        last = snapshots[-1].get(name) if len(snapshots) > 1 else None
        if last is None or not _py_equal(last.get("value"), value):
            ctx.violation("persist_subset_wrong", "after_reboot", "%s is a persistent variable (%s) but after the reboot "
                          "setting it to %r was not handed to the data manager; last data handed over: %r"
                          % (name, "declared in machine_vars: %r" % (declared[name],) if name in declared else
                             "reloaded from disk", value, snapshots[-1]))
    env["sched"].kill_all()


def _py_equal(a, b):
    try:
        return bool(a == b)
    except Exception:      # pylint: disable=broad-except
        return False


def _changed_persisted(op, before, after):
    """Did this op change the persisted subset (value, membership or expiry)?  Then it must have been written."""
    if before.keys() != after.keys():
        return True
    for k in before:
        if not _eq(before[k]["value"], after[k]["value"]) or before[k]["expire"] != after[k]["expire"] \
                or before[k]["expire_secs"] != after[k]["expire_secs"]:
            return True
    return False
