#!/bin/sh
# usage: eval_seed.sh <PROP> <worktree> <mN> [runs] [name under seeded/, default mN]
# Confirms a seeded change (demo fails with it, passes without), runs the property's check against it,
# stores it under /verif/seeded/<PROP>-<mN>/ with the verdict.
P="$1"; W="$2"; M="$3"; RUNS="${4:-}"; NAME="${5:-$M}"
D="$W/out/$M"
cd "$W" || exit 2
git checkout -q -- . ; git checkout -q --detach $(git -C /repo rev-parse HEAD)
DEMO=$(ls $D/demo.py $D/test_demo.py 2>/dev/null | head -1)
echo "== demo without change"; (cd $W && timeout 600 /venv/bin/python $DEMO >/tmp/seed_demo_clean_$$.log 2>&1); C0=$?
git apply "$D/patch.diff" || { echo "patch does not apply"; exit 2; }
echo "== demo with change"; (cd $W && timeout 600 /venv/bin/python $DEMO >/tmp/seed_demo_mut_$$.log 2>&1); C1=$?
echo "demo exit: clean=$C0 mutated=$C1"
cd /verif
if [ -n "$RUNS" ]; then R="--runs $RUNS"; else R=""; fi
VERIF_REPO="$W" ./check $P $R > /tmp/seed_check_$$.log 2>&1; CC=$?
grep -v condarc /tmp/seed_check_$$.log | grep "VIOLATION\|rule=\|runs=" | cut -c1-300 | head -6
echo "check exit: $CC"
cd "$W" && git checkout -q -- .
mkdir -p /verif/seeded/$P-$NAME
cp $D/patch.diff $D/meta.json /verif/seeded/$P-$NAME/ 2>/dev/null
cp $DEMO /verif/seeded/$P-$NAME/
python3 - "$P" "$NAME" "$C0" "$C1" "$CC" "/tmp/seed_check_$$.log" <<'PY'
import json,sys,re
p,m,c0,c1,cc,logf=sys.argv[1:7]
d="/verif/seeded/%s-%s/"%(p,m)
try: meta=json.load(open(d+"meta.json"))
except Exception: meta={}
log=open(logf).read()
rules=sorted(set(re.findall(r"rule=(\S+)",log)))
meta.update({"property":p,"confirmed":{"demo_exit_without_change":int(c0),"demo_exit_with_change":int(c1)},
  "check_result":{"cmd":"VERIF_REPO=<worktree with patch> ./check %s"%p,"exit":int(cc),"caught":int(cc)==1,"rules":rules}})
json.dump(meta,open(d+"meta.json","w"),indent=1)
print("stored",d,"caught=",int(cc)==1,rules)
PY
rm -f /tmp/seed_demo_clean_$$.log /tmp/seed_demo_mut_$$.log /tmp/seed_check_$$.log
