#!/bin/sh
# usage: apply_fix.sh <diff file> <commit subject (must start with "fix:")> [body...]
set -e
D="$1"; shift
S="$1"; shift
cd /repo
git apply --check "$D"
git apply "$D"
git add -A
if [ $# -gt 0 ]; then git commit -q -m "$S" -m "$*"; else git commit -q -m "$S"; fi
git log --oneline | head -1
