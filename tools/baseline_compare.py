#!/usr/bin/env python3
"""Run the pinned baseline suite on /repo and compare with /root/.vp/BASELINE.json stable_pass."""
import json, subprocess, sys, xml.etree.ElementTree as ET
out = "/tmp/junit_baseline_compare.xml"
subprocess.run("cd /repo && /venv/bin/python -m pytest -ra -q -p no:cacheprovider --timeout=900 "
               "--continue-on-collection-errors --junitxml=%s > /tmp/baseline_compare.log 2>&1" % out, shell=True)
base = json.load(open("/root/.vp/BASELINE.json"))
stable = set(base["stable_pass"])
passed = set()
for tc in ET.parse(out).getroot().iter("testcase"):
    if not any(c.tag in ("failure", "error", "skipped") for c in tc):
        passed.add("%s::%s" % (tc.get("classname"), tc.get("name")))
missing = sorted(stable - passed)
print("stable_pass: %d, passed now: %d, stable tests not passing now: %d" % (len(stable), len(passed), len(missing)))
for m in missing[:40]:
    print("  MISSING", m)
sys.exit(1 if missing else 0)
