#!/venv/bin/python
"""Generate /verif/MANIFEST.json from the check modules (single source of truth for ids, levels, commands)."""
import importlib
import json
import os
import sys

VERIF = os.path.dirname(os.path.dirname(os.path.abspath(__file__)))
sys.path.insert(0, VERIF)
os.environ.setdefault("PYTHONWARNINGS", "ignore")

NOT_APPLICABLE = {
    "C12": "Config validation and time-string parsing are pure functions of (spec, input): no schedule, clock, "
           "I/O, fault or interleaving enters the statement, so deterministic simulation has nothing to decide "
           "(DESIGN.md section 5, C12).",
}


def accepted():
    """Checks are claimed only once reviewed and accepted: ids listed in tools/accepted.txt."""
    with open(os.path.join(VERIF, "tools", "accepted.txt")) as f:
        return {l.strip() for l in f if l.strip() and not l.startswith("#")}


def main():
    props = [json.loads(l) for l in open(os.path.join(VERIF, "properties.jsonl"))]
    checks = []
    claimed = set()
    for f in sorted(os.listdir(os.path.join(VERIF, "checks"))):
        if not (f.startswith("c") and f.endswith(".py")):
            continue
        src = open(os.path.join(VERIF, "checks", f)).read()
        meta = {}
        # metadata is plain module-level constants; read them without importing mpf
        import ast
        tree = ast.parse(src)
        for node in tree.body:
            if isinstance(node, ast.Assign) and len(node.targets) == 1 and isinstance(node.targets[0], ast.Name):
                try:
                    meta[node.targets[0].id] = ast.literal_eval(node.value)
                except Exception:
                    pass
        if "ID" not in meta or meta.get("DISABLED") or meta["ID"] not in accepted():
            continue
        pid = meta["ID"]
        claimed.add(pid)
        checks.append({
            "property_id": pid,
            "quick_cmd": "./check %s --tier quick" % pid,
            "thorough_cmd": "./check %s --tier thorough" % pid,
            "evidence_file": "/verif/evidence/%s.json" % pid,
            "replay_cmd_template": "./check %s --replay {path}" % pid,
            "engine": "sim",
            "level_claimed": {
                "category": meta.get("LEVEL", "exploration"),
                "text": meta.get("LEVEL_TEXT", "Seeded search over schedules, histories and fault sequences on the real "
                                 "code under a deterministic simulator; a clean batch is evidence, not proof."),
                "design_ref": "DESIGN.md section 5, %s" % pid,
            },
            "level_note": meta.get("LEVEL_NOTE", "Trusted: the simulator (SimLoop, SimClock, stubs listed in the evidence "
                                   "file) and the reference model/oracle written from the property statement."),
            "technique": meta.get("TECHNIQUE", "deterministic simulation with fault injection (seeded schedule/fault search, "
                                  "reference-model oracle)"),
        })
    na = []
    for p in props:
        if p["id"] in claimed:
            continue
        reason = NOT_APPLICABLE.get(p["id"], "check not built yet (planned, see DESIGN.md section 5); not claimed in this commit")
        na.append({"property_id": p["id"], "reason": reason})
    man = {
        "version": 1,
        "setup_cmd": "true",
        "hooks": {
            "guard": "MPF_VERIF",
            "enable": "no hooks are compiled in: the simulator uses seams MPF already has (MachineController._load_clock, "
                      "create_data_manager, platform class paths in config, module attributes patched from /verif at run time)",
            "baseline_off_cmd": "cd /repo && /venv/bin/python -m pytest -ra -q -p no:cacheprovider --timeout=900 "
                                "--continue-on-collection-errors",
            "source_commits": [],
            "add_only": True,
        },
        "engines": [{
            "name": "sim", "path": "/verif/sim",
            "serves_properties": sorted(claimed),
            "kind_free_text": "deterministic simulation: custom virtual-time asyncio loop (stalls, tie permutations, simulated "
                              "serial I/O), per-tag choice tape from one seed, fork-per-run zygote pool with ASLR off and "
                              "pinned PYTHONHASHSEED, plan/tape minimiser, replay files",
        }],
        "checks": checks,
        "not_applicable": na,
        "notes": "All checks: ./check <id> [--tier quick|thorough] [--seed N]; VERIF_SEED and VERIF_TIER are honoured. "
                 "Exit 0 = held on everything explored (KNOWN-FINDING lines allowed), 1 = VIOLATION line(s), 2 = harness problem.",
    }
    with open(os.path.join(VERIF, "MANIFEST.json"), "w") as f:
        json.dump(man, f, indent=1)
    print("claimed:", sorted(claimed), "not applicable / pending:", [x["property_id"] for x in na])


if __name__ == "__main__":
    main()
