#!/venv/bin/python
"""Generate /verif/MANIFEST.json from the check modules (single source of truth for ids, levels, commands)."""
import importlib
import json
import os
import sys

VERIF = os.path.dirname(os.path.dirname(os.path.abspath(__file__)))
sys.path.insert(0, VERIF)
os.environ.setdefault("PYTHONWARNINGS", "ignore")

NOT_APPLICABLE = {
    "C12": "Config validation and time-string parsing are pure functions of (spec, input): no schedule, clock, "
           "I/O, fault or interleaving enters the statement, so deterministic simulation has nothing to decide "
           "(DESIGN.md section 5, C12).",
}


TECHNIQUES = {
    "C01": "deterministic simulation: seeded handler programs on the real event bus (virtual-time loop, tie/stall injection) compared call by call with an executable reference model of the bus",
    "C02": "deterministic simulation: seeded queue/relay/boolean event programs with adversarial clear timing; history oracle (once-only callback, no overlap of waits, bounded liveness after the last clear)",
    "C03": "deterministic simulation: seeded switch-report timelines and handler add/remove around deadlines (stalls, same-instant ties); reference model of switch and timed-handler semantics driven by processing order",
    "C04": "deterministic simulation with fault injection: physical ball world (PinWorld) behind the platform seam, eject outcomes success/fall-back/stuck/late; conservation and bounds as in-run invariants, equality with the world at rest",
    "C05": "deterministic simulation with fault injection: same physical ball world; bounded liveness after faults stop (devices idle, nothing owed while a source holds a ball, failed ejects retried or reported)",
    "C06": "deterministic simulation: seeded game histories with requests landing inside held lifecycle queue events; grammar automaton over the lifecycle event trace plus balls-in-play model",
    "C07": "deterministic simulation: seeded start/stop storms over several modes incl. requests from lifecycle handlers and held queue events; per-mode order automaton and registry-snapshot equality after every stop",
    "C08": "deterministic simulation: seeded coil configurations and requests on every actuation entry point, raced with software timers; monitor at the platform-driver seam (limits, refusal, switched off in time)",
    "C09": "deterministic simulation: seeded colour/fade/remove histories at instants inside running fades on direct, software-fade and batched backends; reference stack model and hardware == model once fades finished",
    "C10": "deterministic simulation: seeded enable/disable/flip/tilt/service/game histories with ties and stalls; installed-rule multiset at the platform seam == rules of the enabled devices at every quiescent point",
    "C11": "deterministic simulation: seeded multi-player games with persisted devices and events landing around turn changes; per-player shadow model and snapshot isolation of other players",
    "C13": "deterministic simulation: seeded delay/periodic/timer-device histories incl. nested ops in callbacks and ops exactly on deadlines, loop stalls; reference model of named delays and the drift-free nominal tick grid",
    "C14": "deterministic simulation with fault injection: firmware models on a simulated serial line (chunking down to 1 byte, noise, latency, lost/duplicated replies) under the real transports and communicators; differential split/un-split replay and flow-control history oracle",
    "C15": "deterministic simulation with fault injection: real writer threads baton-scheduled against the loop thread over a simulated filesystem with crash points and injected I/O errors; durability/atomicity against the versions handed to save_all, reboot equality",
    "C16": "deterministic simulation: seeded expressions and variable-change histories with subscribers that re-subscribe like config players; freshness oracle (every change of a read variable notifies) with Python eval over a shadow environment as ground truth",
    "C17": "deterministic simulation: generated shows and control requests at arbitrary instants incl. exactly on step deadlines, loop stalls; nominal schedule in exact rational arithmetic, once-only events, no residue after stop",
    "C18": "deterministic simulation: seeded counter/accrual/sequence configurations and op histories with hits on window/timeout deadlines and mode/ball transitions; three small reference state machines",
    "C19": "deterministic simulation: BCP byte streams fed to the real receive loop in tape-chosen chunks and times over several clients; same (cmd, kwargs) sequence for every chunking, codec round trip on the same traffic",
    "C20": "deterministic simulation: seeded pricing configurations and coin/start/expiry/toggle/reboot histories racing with expiry timers; exact-fraction ledger oracle where every balance change must have exactly one explanation",
}


def accepted():
    """Checks are claimed only once reviewed and accepted: ids listed in tools/accepted.txt."""
    with open(os.path.join(VERIF, "tools", "accepted.txt")) as f:
        return {l.strip() for l in f if l.strip() and not l.startswith("#")}


def main():
    props = [json.loads(l) for l in open(os.path.join(VERIF, "properties.jsonl"))]
    checks = []
    claimed = set()
    for f in sorted(os.listdir(os.path.join(VERIF, "checks"))):
        if not (f.startswith("c") and f.endswith(".py")):
            continue
        src = open(os.path.join(VERIF, "checks", f)).read()
        meta = {}
        # metadata is plain module-level constants; read them without importing mpf
        import ast
        tree = ast.parse(src)
        for node in tree.body:
            if isinstance(node, ast.Assign) and len(node.targets) == 1 and isinstance(node.targets[0], ast.Name):
                try:
                    meta[node.targets[0].id] = ast.literal_eval(node.value)
                except Exception:
                    pass
        if "ID" not in meta or meta.get("DISABLED") or meta["ID"] not in accepted():
            continue
        pid = meta["ID"]
        claimed.add(pid)
        checks.append({
            "property_id": pid,
            "quick_cmd": "./check %s --tier quick" % pid,
            "thorough_cmd": "./check %s --tier thorough" % pid,
            "evidence_file": "/verif/evidence/%s.json" % pid,
            "replay_cmd_template": "./check %s --replay {path}" % pid,
            "engine": "sim",
            "level_claimed": {
                "category": meta.get("LEVEL", "exploration"),
                "text": meta.get("LEVEL_TEXT") or (
                    "Seeded search (%s quick / %s thorough runs, one forked child per seed) over schedules, histories and fault "
                    "sequences on the real code under the deterministic simulator; a clean batch is evidence, not proof. "
                    "Case space: %s" % (meta.get("RUNS", {}).get("quick", "?"), meta.get("RUNS", {}).get("thorough", "?"),
                                        " ".join(str(meta.get("RULE", "")).split())[:700])),
                "design_ref": "DESIGN.md section 5, %s" % pid,
            },
            "level_note": meta.get("LEVEL_NOTE") or (
                "Trusted: the simulator (SimLoop/SimClock and the stubs listed in the evidence file) and the oracle written from "
                "the property statement. Assumptions: %s" % "; ".join(str(a) for a in meta.get("ASSUMPTIONS", []))[:900]),
            "technique": TECHNIQUES.get(pid, meta.get("TECHNIQUE", "deterministic simulation with fault injection")),
        })
    na = []
    for p in props:
        if p["id"] in claimed:
            continue
        reason = NOT_APPLICABLE.get(p["id"], "check not built yet (planned, see DESIGN.md section 5); not claimed in this commit")
        na.append({"property_id": p["id"], "reason": reason})
    man = {
        "version": 1,
        "setup_cmd": "true",
        "hooks": {
            "guard": "MPF_VERIF",
            "enable": "no hooks are compiled in: the simulator uses seams MPF already has (MachineController._load_clock, "
                      "create_data_manager, platform class paths in config, module attributes patched from /verif at run time)",
            "baseline_off_cmd": "cd /repo && /venv/bin/python -m pytest -ra -q -p no:cacheprovider --timeout=900 "
                                "--continue-on-collection-errors",
            "source_commits": [],
            "add_only": True,
        },
        "engines": [{
            "name": "sim", "path": "/verif/sim",
            "serves_properties": sorted(claimed),
            "kind_free_text": "deterministic simulation: custom virtual-time asyncio loop (stalls, tie permutations, simulated "
                              "serial I/O), per-tag choice tape from one seed, fork-per-run zygote pool with ASLR off and "
                              "pinned PYTHONHASHSEED, plan/tape minimiser, replay files",
        }],
        "checks": checks,
        "not_applicable": na,
        "notes": "All checks: ./check <id> [--tier quick|thorough] [--seed N]; VERIF_SEED and VERIF_TIER are honoured. "
                 "Exit 0 = held on everything explored (KNOWN-FINDING lines allowed), 1 = VIOLATION line(s), 2 = harness problem.",
    }
    with open(os.path.join(VERIF, "MANIFEST.json"), "w") as f:
        json.dump(man, f, indent=1)
    print("claimed:", sorted(claimed), "not applicable / pending:", [x["property_id"] for x in na])


if __name__ == "__main__":
    main()
