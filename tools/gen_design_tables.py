#!/usr/bin/env python3
"""Regenerate sections 11 and 12 of DESIGN.md from known_findings*.json and seeded/*/meta.json."""
import glob, json, os, re
V = os.path.dirname(os.path.dirname(os.path.abspath(__file__)))
kf = json.load(open(V + "/known_findings.json"))
out = []
out.append("## 11. Findings: repaired defects and recorded known findings\n")
out.append("Every alarm on the tree was triaged by replaying it and reading the code path (section 4.5). Genuine defects with a\n"
           "small, safe repair were fixed in /repo, one `fix:` commit per defect (`git -C /repo log --grep '^fix:'`); the pinned\n"
           "suite still passes (`tools/baseline_compare.py`: all 858 stable tests). They are listed in `known_findings.json` under\n"
           "`fixed` and suppress nothing: the checks pass on the repaired tree and report the violation again if it returns\n"
           "(each fix was confirmed by reverting it: the owning check alarms).\n")
out.append("### 11.1 Repaired (%d)\n" % len(kf["fixed"]))
for f in kf["fixed"]:
    m = re.match(r"fixed: property=(\S+) (\S+) (.*)", f)
    out.append("* **%s** `%s` - %s" % (m.group(1), m.group(2), m.group(3)))
out.append("\n### 11.2 Recorded, not repaired (known findings)\n")
out.append("Kept in `known_findings.d/<id>.json`, keyed by oracle rule + a narrow signature regex; a check prints\n"
           "`KNOWN-FINDING: ...` for each one it hits and exits 0; any violation that does not match is a VIOLATION.\n"
           "Why not repaired is stated per entry (repair not small/safe, wire-format compatibility, pinned by a unit test).\n")
for fn in sorted(glob.glob(V + "/known_findings.d/*.json")):
    for k in json.load(open(fn))["known"]:
        out.append("* **%s** `%s` (rule `%s`) - %s" % (k["property"], k["id"], k["rule"], k["what"]))
out.append("\n## 12. Seeded changes: which checks catch which\n")
out.append("Fresh sub-agents were given only the text of one property and a scratch worktree, and asked for two changes each that\n"
           "break the property, keep the suite passing and need something specific to manifest. Each was confirmed here (its\n"
           "demonstration fails with the change and passes without) and then the property's quick check was run against the changed\n"
           "tree (`tools/eval_seed.sh`). Kept under `seeded/<id>-<n>/` (patch.diff, demo.py, meta.json with the verdict).\n")
out.append("| seed | caught | by rule(s) | what it needs to manifest |")
out.append("|---|---|---|---|")
for d in sorted(glob.glob(V + "/seeded/*")):
    m = json.load(open(d + "/meta.json"))
    cr = m["check_result"]
    need = (m.get("needs_to_manifest") or m.get("summary") or "").replace("\n", " ").replace("|", "/")
    if len(need) > 260:
        need = need[:257] + "..."
    note = m.get("strengthened", "")
    verdict = "yes" if cr["caught"] else "**no**"
    if not cr["caught"] and m.get("caught_by_other"):
        verdict = "by " + ", ".join("%s (%s)" % (k, ", ".join(v)) for k, v in sorted(m["caught_by_other"].items()))
    if not cr["caught"] and m.get("note"):
        verdict += " - " + m["note"]
    out.append("| %s | %s%s | %s | %s |" % (os.path.basename(d), verdict,
                                            (" (after strengthening: %s)" % note) if note else "", ", ".join(cr["rules"]) or "-", need))
text = "\n".join(out) + "\n\n"
s = open(V + "/DESIGN.md").read()
a, b = "<!-- GEN:FINDINGS:BEGIN -->\n", "<!-- GEN:FINDINGS:END -->\n"
if a in s:
    s = s[:s.index(a) + len(a)] + text + s[s.index(b):]
else:
    s = s.replace("## Corrections", a + text + b + "## Corrections")
open(V + "/DESIGN.md", "w").write(s)
print("ok", len(out), "lines")
