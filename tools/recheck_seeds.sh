#!/bin/sh
# usage: recheck_seeds.sh [pattern]     (pattern: glob under /verif/seeded, default '*')
# Regression over the stored seeded changes: for each /verif/seeded/<PROP>-<name>/patch.diff, apply it to a scratch
# worktree of /repo's HEAD, run the property's quick check against that worktree and report whether it is (still)
# caught.  Updates check_result in meta.json.  The scratch worktree lives under /tmp and is removed at the end.
PAT="${1:-*}"
W=/tmp/recheck_wt_$$
git -C /repo worktree add -q --detach "$W" HEAD || exit 2
trap 'git -C /repo worktree remove --force "$W" >/dev/null 2>&1' EXIT
cd /verif
for d in seeded/$PAT/; do
    id=$(basename "$d"); P=${id%%-*}
    [ -f "$d/patch.diff" ] || continue
    (cd "$W" && git checkout -q -- . && git apply "/verif/$d/patch.diff" 2>/dev/null) || { echo "$id: patch does not apply to HEAD"; continue; }
    VERIF_REPO="$W" ./check $P ${RECHECK_ARGS:-} > /tmp/recheck_$$.log 2>&1; CC=$?
    python3 - "$d" "$CC" /tmp/recheck_$$.log <<'PY'
import json,sys,re
d,cc,log=sys.argv[1],int(sys.argv[2]),open(sys.argv[3]).read()
meta=json.load(open(d+"meta.json"))
rules=sorted(set(re.findall(r"rule=(\S+)",log)))
was=meta.get("check_result",{}).get("caught")
meta.setdefault("check_result",{}).update({"exit":cc,"caught":cc==1,"rules":rules})
json.dump(meta,open(d+"meta.json","w"),indent=1)
print("%-12s exit=%d caught=%s%s %s" % (d.split("/")[1], cc, cc==1, "" if was==(cc==1) else "  (was %s)"%was, rules))
PY
    (cd "$W" && git checkout -q -- .)
done
rm -f /tmp/recheck_$$.log
