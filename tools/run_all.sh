#!/bin/sh
# run every accepted check at the given tier (default quick); prints one line per check
T="${1:-quick}"
cd "$(dirname "$0")/.."
for p in $(grep -v '^#' tools/accepted.txt); do
  s=$(date +%s)
  ./check $p --tier $T > /tmp/runall_${VERIF_SEED:-0}_$p.log 2>&1; c=$?
  e=$(date +%s)
  echo "$p exit=$c wall=$((e-s))s $(grep -v condarc /tmp/runall_${VERIF_SEED:-0}_$p.log | grep 'runs=' | sed 's/.*\(runs=[0-9]* ok=[0-9]*\).*/\1/') $(grep -c '^VIOLATION' /tmp/runall_${VERIF_SEED:-0}_$p.log) viol $(grep -c '^KNOWN' /tmp/runall_${VERIF_SEED:-0}_$p.log) known"
done
