# usage: PYTHONPATH=/verif PYTHONHASHSEED=0 setarch $(uname -m) -R /venv/bin/python tools/one_seed.py CNN <seed> : one run of one seed (thorough-tier plan), prints the verdict
import sys, json
sys.path.insert(0,'/verif')
from sim import ensure_repo_import; ensure_repo_import()
from sim import harness
name = harness.find_check_module(sys.argv[1]); check = harness.load_check(name)
if hasattr(check, "warm"): check.warm()
harness.load_known(check.ID)
r = harness.run_one(check, {"seed": int(sys.argv[2]), "tier": "thorough"})
print(r["status"], r.get("rule"), r.get("sig"), (r.get("msg") or "")[:400])
