"""Reference models of MPF logic blocks (counter, accrual, sequence) for C18.

Written from the property statement and the documented meaning of the config keys, not from
mpf/devices/logic_blocks.py.  Pure Python, no MPF imports, no clocks: the caller passes the instant (`now`)
at which the real system *processed* an operation and the index into the loop's stall log, so the models
follow processing order and actual loop time.

Statement (C18): "a counter's value equals its start value plus the number of hits accepted while enabled
and outside its multiple-hit window times its interval in its direction, an accrual advances on its
configured steps in any order and a sequence only in strict order.  Each posts its hit events once per
accepted hit and its completion event exactly once per completion, at the moment the goal is reached, and
then resets or disables as configured."

Documented config semantics used on top of the statement:
  * start_enabled: true/false decides the initial enabled state; when absent the block starts enabled
    exactly when it has no enable_events.
  * reset: value back to the start value, completed cleared.  restart: reset + enable.
  * logic_block_timeout: a timer runs from the start of the block (enable / reset / restart) until it is
    stopped (disable / completion); when it expires the block posts <name>_timeout and is reset, and the
    timer starts again.
  * counter control_events add / subtract / jump change the value by/to the configured amount and complete
    the counter when the goal is reached that way (no hit event: it is not a hit).
  * multiple_hit_window: after an accepted hit further hits are ignored for that many ms.
  * one occurrence of an event hits every accrual step that lists it, and advances a sequence by at most
    one step.
  * a control event configured with a delay ("event: 500ms") is carried out that long after it was posted,
    once per occurrence (class DelayedEvents).

Named relaxations (the statement leaves these open; both outcomes are accepted):
  R-window-tie      a hit processed in the very instant the loop reached the end of the window (tie order,
                    or a stall that landed the loop there) may be counted or ignored.
  R-window-reload   a window that was opened by an earlier incarnation of a mode-based counter (the mode
                    was restarted / another player's state was loaded since) may or may not still apply.
  R-timer-may       whether the timeout timer also runs in situations the documentation does not mention
                    (enable of an already enabled block restarts it or not; reset of a disabled block
                    starts it or not; a block that stays enabled after completion) - the model keeps a set
                    of candidate deadlines; a timeout is legal only at a candidate, and it is *required*
                    only when the timer was started in a documented way.
  R-random          advance_random may pick any step that is not yet hit.
  R-delayed-stop    see DelayedEvents: delayed control events in flight when their mode begins to stop.
"""

EPS = 1e-9


class Transition:
    """What one processed operation must have produced."""

    __slots__ = ["events", "states", "changed", "notes"]

    def __init__(self, blk):
        self.events = []                      # [(event name, kwargs)] in order
        self.states = [blk.pub_state()]       # every (value, enabled) the block passed through (first = before)
        self.changed = False
        self.notes = []

    def touch(self, blk):
        st = blk.pub_state()
        if st != self.states[-1]:
            self.changed = True
        self.states.append(st)


class TimerModel:
    """Candidate deadlines of the logic_block_timeout timer (see R-timer-may)."""

    def __init__(self, ms):
        self.ms = ms
        self.cands = []        # [(deadline, stall_idx)]
        self.must = False      # at least one candidate has to fire unless something stops/restarts the timer

    def start(self, now, idx, must):
        if not self.ms:
            return
        self.cands = [(now + self.ms / 1000.0, idx)]
        self.must = must

    def add_candidate(self, now, idx):
        """A start the documentation does not promise: old candidates stay valid."""
        if not self.ms:
            return
        if not self.cands:
            self.must = False
        self.cands.append((now + self.ms / 1000.0, idx))

    def stop(self):
        self.cands = []
        self.must = False

    def running(self):
        return bool(self.cands)

    def match(self, now, landing):
        """Is `now` the instant at which one of the candidate deadlines is processed?"""
        for d, idx in self.cands:
            if abs(landing(d, idx) - now) <= EPS:
                return True
        return False

    def prune(self, now, landing):
        """Drop candidates whose instant has passed without a timeout.  Returns the missed deadline if the
        timer was required to fire and no candidate is left."""
        keep = [(d, idx) for d, idx in self.cands if landing(d, idx) >= now - EPS]
        missed = None
        if len(keep) != len(self.cands):
            if not keep and self.must:
                missed = max(d for d, _ in self.cands)
            self.cands = keep
            if not keep:
                self.must = False
        return missed

    def deadlines(self):
        return [d for d, _ in self.cands]


class DelayedEvents:
    """Control events configured with a delay ("count_events: {pop_hit: 500ms}").

    Statement: "for any sequence of count or step events, enable, disable, reset, restart ..." - every
    *occurrence* of a control event is one operation.  Documented config semantics of the "event: delay" form:
    the operation is carried out `delay` after the event was posted.  So each processed occurrence acts
    exactly once, at (instant it was processed) + delay, late only when the loop itself was late; occurrences
    never merge, also not when several of them (same event twice, or two events with the same delay) are in
    flight at the same time.
    Mode-based blocks: the delayed occurrences belong to the mode; what is still in flight when the mode stops
    is not carried out any more.  R-delayed-stop: an occurrence that is in flight when the stop of the mode
    *begins*, or that is posted while the mode is stopping, may still act as long as the block exists (until
    the mode has finished stopping) or be dropped - both are accepted; after that it must not act.
    """

    def __init__(self):
        self.pending = []          # dicts: op, d (deadline), idx (stall index), must, ms, event, t (posted)

    def add(self, op, now, ms, idx, must, event):
        e = {"op": op, "d": now + ms / 1000.0, "idx": idx, "must": must, "ms": ms, "event": event, "t": now}
        self.pending.append(e)
        return e

    def overlaps(self, op, ms):
        """Occurrences of the same operation with the same delay already in flight."""
        return [e for e in self.pending if e["op"] == op and e["ms"] == ms]

    def relax(self):
        """The stop of the mode begins (R-delayed-stop)."""
        n = 0
        for e in self.pending:
            if e["must"]:
                e["must"] = False
                n += 1
        return n

    def drop_all(self):
        n = len(self.pending)
        self.pending = []
        return n

    def take(self, op, now, landing):
        """An operation `op` was carried out by a delay at `now`: the occurrence it belongs to (or None)."""
        best = None
        for e in self.pending:
            if e["op"] == op and abs(landing(e["d"], e["idx"]) - now) <= EPS:
                # required occurrences first, oldest first
                if best is None or (e["must"] and not best["must"]):
                    best = e
        if best is not None:
            self.pending.remove(best)
        return best

    def prune(self, now, landing):
        """Occurrences whose instant has passed without the operation.  Returns the required ones (lost)."""
        keep, lost = [], []
        for e in self.pending:
            if landing(e["d"], e["idx"]) >= now - EPS:
                keep.append(e)
            elif e["must"]:
                lost.append(e)
        self.pending = keep
        return lost

    def deadlines(self):
        return [e["d"] for e in self.pending]


class BlockModel:
    """Common part: enabled/completed, completion handling, timeout timer, (un)loading for mode-based blocks."""

    kind = "block"

    def __init__(self, name, cfg):
        self.name = name
        self.cfg = cfg
        self.scope = cfg.get("scope", "machine")
        self.persist = bool(cfg.get("persist"))
        # both default to true
        self.reset_on_complete = True if cfg.get("reset_on_complete") is None else bool(cfg["reset_on_complete"])
        self.disable_on_complete = True if cfg.get("disable_on_complete") is None else bool(cfg["disable_on_complete"])
        se = cfg.get("start_enabled")
        self.start_enabled = (not cfg.get("enable_events")) if se is None else bool(se)
        self.hit_events = list(cfg.get("hit_events") or self.default_hit_events())
        self.complete_events = list(cfg.get("complete_events") or ["logicblock_%s_complete" % name])
        self.timer = TimerModel(cfg.get("timeout_ms", 0))
        self.loaded = self.scope == "machine"
        self.enabled = False
        self.completed = False
        self.value = self.start_value()
        self.epoch = 0                 # incremented at every load
        self.pending_start_enable = False
        self.completions = 0
        self.accepted_hits = 0
        self.delayed = DelayedEvents()

    # -- to be specialised ---------------------------------------------------------------------
    def default_hit_events(self):
        return ["logicblock_%s_hit" % self.name]

    def start_value(self):
        raise NotImplementedError

    def pub_value(self):
        return self.value

    # -- helpers -----------------------------------------------------------------------------------
    def pub_state(self):
        return (self.pub_value(), bool(self.enabled)) if self.loaded else None

    def full_state(self):
        return (self.pub_value(), bool(self.enabled), bool(self.completed)) if self.loaded else None

    def _emit_hit(self, tr, kwargs):
        for ev in self.hit_events:
            tr.events.append((ev, dict(kwargs)))

    def _reset(self, tr, now, idx):
        self.completed = False
        self.value = self.start_value()
        tr.touch(self)
        # documented: the timer runs from reset; undocumented when the block is disabled (R-timer-may)
        self.timer.start(now, idx, must=bool(self.enabled))

    def _complete(self, tr, now, idx):
        """The goal was reached: exactly one completion unless the block is still completed."""
        if self.completed:
            tr.notes.append("already_completed")
            return
        self.completed = True
        self.completions += 1
        self.timer.stop()
        for ev in self.complete_events:
            tr.events.append((ev, {}))
        tr.notes.append("complete")
        if self.reset_on_complete:
            self._reset(tr, now, idx)
            tr.notes.append("complete_reset")
        if self.disable_on_complete:
            self.enabled = False
            self.timer.stop()
            tr.touch(self)
            tr.notes.append("complete_disable")

    # -- operations common to all blocks ---------------------------------------------------------
    def boot(self, now, idx):
        """Machine-wide block after boot."""
        tr = Transition(self)
        if self.start_enabled:
            self.enabled = True
            self.timer.start(now, idx, must=True)
            tr.touch(self)
        return tr

    def enable(self, now, idx):
        tr = Transition(self)
        if not self.loaded:
            return tr
        if self.enabled:
            tr.notes.append("enable_while_enabled")
            self.timer.add_candidate(now, idx)          # R-timer-may
        else:
            self.enabled = True
            # a block that is enabled while still completed: timer undocumented (R-timer-may)
            self.timer.start(now, idx, must=not self.completed)
        tr.touch(self)
        return tr

    def disable(self, now, idx):
        tr = Transition(self)
        if not self.loaded:
            return tr
        self.enabled = False
        self.timer.stop()
        tr.touch(self)
        return tr

    def reset(self, now, idx):
        tr = Transition(self)
        if not self.loaded:
            return tr
        if not self.enabled:
            tr.notes.append("reset_while_disabled")
        self._reset(tr, now, idx)
        return tr

    def restart(self, now, idx):
        tr = Transition(self)
        if not self.loaded:
            return tr
        self.completed = False
        self.value = self.start_value()
        tr.touch(self)
        self.enabled = True
        tr.touch(self)
        self.timer.start(now, idx, must=True)
        return tr

    def timeout(self, now, idx):
        """<name>_timeout was observed: the block is reset and the timer starts again."""
        tr = Transition(self)
        self._reset(tr, now, idx)
        return tr

    # -- mode-based blocks ---------------------------------------------------------------------------
    def load(self, saved, now=0.0, idx=0):
        """The mode that owns the block starts.  `saved` = persisted (value, enabled, completed) or None."""
        self.loaded = True
        self.epoch += 1
        self.timer.stop()
        if saved is not None:
            self.value, self.enabled, self.completed = saved[0], saved[1], saved[2]
            self.pending_start_enable = False
            if self.enabled and not self.completed:
                # whether the timer of a restored, enabled block runs again is not documented (R-timer-may)
                self.timer.add_candidate(now, idx)
        else:
            self.value = self.start_value()
            self.enabled = False
            self.completed = False
            self.pending_start_enable = self.start_enabled
        return Transition(self)

    def mode_starting(self, now, idx):
        """mode_<name>_starting has been handled: a freshly created block is enabled if it starts enabled."""
        tr = Transition(self)
        if self.loaded and self.pending_start_enable:
            self.pending_start_enable = False
            return self.enable(now, idx)
        return tr

    def unload(self):
        """The mode stopped.  Returns the state to persist."""
        saved = (self.value, bool(self.enabled), bool(self.completed))
        self.loaded = False
        self.pending_start_enable = False
        self.timer.stop()
        return saved


class CounterModel(BlockModel):

    kind = "counter"

    def __init__(self, name, cfg):
        self.direction = cfg.get("direction", "up")
        self.step = abs(cfg.get("interval", 1)) * (1 if self.direction == "up" else -1)
        self.start = cfg.get("start", 0)
        self.goal = cfg.get("complete")
        self.window_ms = cfg.get("window_ms", 0)
        self.window = None          # (end deadline, stall_idx, epoch)
        super().__init__(name, cfg)

    def default_hit_events(self):
        # both names are documented for counters (counter_<name>_hit is the deprecated one)
        return ["counter_%s_hit" % self.name, "logicblock_%s_hit" % self.name]

    def start_value(self):
        return self.start

    def _goal_reached(self):
        if self.goal is None:
            return False
        return self.value >= self.goal if self.direction == "up" else self.value <= self.goal

    def hit_verdict(self, now, landing):
        """accept / reject / either, plus the reason (for probes)."""
        if not self.loaded:
            return "reject", "not_loaded"
        if not self.enabled:
            return "reject", "disabled"
        if self.window is None:
            return "accept", "open"
        d, idx, epoch = self.window
        land = landing(d, idx)
        if now < land - EPS:
            if epoch != self.epoch:
                return "either", "window_reload"       # R-window-reload
            return "reject", "in_window"
        if abs(now - land) <= EPS:
            return "either", "window_tie"              # R-window-tie
        return "accept", "after_window"

    def hit(self, now, idx, accepted):
        tr = Transition(self)
        if not accepted:
            return tr
        self.accepted_hits += 1
        if self.completed:
            tr.notes.append("hit_while_completed")
        self.value += self.step
        tr.touch(self)
        kw = {"count": self.value}
        if self.goal is not None:
            if self.direction == "down":
                kw["hits"] = self.start - self.value
                kw["remaining"] = self.value - self.goal
            else:
                kw["hits"] = self.value - self.start
                kw["remaining"] = self.goal - self.value
        self._emit_hit(tr, kw)
        if self._goal_reached():
            self._complete(tr, now, idx)
        if self.window_ms:
            self.window = (now + self.window_ms / 1000.0, idx, self.epoch)
        return tr

    def control(self, action, amount, now, idx):
        tr = Transition(self)
        if not self.loaded:
            return tr
        if action == "add":
            self.value += amount
        elif action == "subtract":
            self.value -= amount
        elif action == "jump":
            self.value = amount
        else:
            raise ValueError(action)
        tr.touch(self)
        if self._goal_reached():
            self._complete(tr, now, idx)
            tr.notes.append("ctl_complete")
        return tr


class AccrualModel(BlockModel):

    kind = "accrual"

    def __init__(self, name, cfg):
        self.steps = [list(s) for s in cfg["steps"]]
        super().__init__(name, cfg)

    def start_value(self):
        return [False] * len(self.steps)

    def pub_value(self):
        return tuple(self.value)

    def _hit_step(self, tr, i, now, idx):
        if not self.enabled:
            return
        if not self.value[i]:
            self.value[i] = True
            self.accepted_hits += 1
            tr.touch(self)
            self._emit_hit(tr, {"step": i})
        else:
            tr.notes.append("repeat_step")
        if all(self.value):
            self._complete(tr, now, idx)

    def step_event(self, event, now, idx):
        tr = Transition(self)
        if not self.loaded:
            return tr
        if not self.enabled:
            tr.notes.append("disabled")
        for i, evs in enumerate(self.steps):
            if event in evs:
                self._hit_step(tr, i, now, idx)
        return tr

    def step_index(self, i, now, idx):
        tr = Transition(self)
        if self.loaded:
            self._hit_step(tr, i, now, idx)
        return tr

    def open_steps(self):
        return [i for i, v in enumerate(self.value) if not v] if (self.loaded and self.enabled) else []


class SequenceModel(BlockModel):

    kind = "sequence"

    def __init__(self, name, cfg):
        self.steps = [list(s) for s in cfg["steps"]]
        super().__init__(name, cfg)

    def start_value(self):
        return 0

    def _advance(self, tr, now, idx):
        self.value += 1
        self.accepted_hits += 1
        tr.touch(self)
        self._emit_hit(tr, {"step": self.value})
        if self.value >= len(self.steps):
            self._complete(tr, now, idx)

    def step_event(self, event, now, idx):
        """One occurrence of `event`: advances iff it belongs to the current step, and then by one step only."""
        tr = Transition(self)
        if not self.loaded:
            return tr
        if not self.enabled:
            tr.notes.append("disabled")
            return tr
        if self.value < len(self.steps) and event in self.steps[self.value]:
            tr.notes.append("in_order")
            self._advance(tr, now, idx)
        else:
            tr.notes.append("out_of_order")
        return tr

    def step_index(self, i, now, idx):
        tr = Transition(self)
        if not self.loaded or not self.enabled:
            return tr
        if i == self.value and self.value < len(self.steps):
            tr.notes.append("in_order")
            self._advance(tr, now, idx)
        else:
            tr.notes.append("out_of_order")
        return tr


def make_model(name, cfg):
    return {"counter": CounterModel, "accrual": AccrualModel, "sequence": SequenceModel}[cfg["kind"]](name, cfg)
