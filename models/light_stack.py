"""Reference model of a light's priority stack (C09), written from the property statement and the
documented behaviour of Light.color()/remove_from_stack_by_key()/clear_stack() (docstrings in
mpf/devices/light.py, docs of `rgbw_white_behavior`, `light_settings`).

Colours are 3-tuples of floats in 0..255.  The model is exact (no 8-bit quantisation); MPF quantises a colour
to 8 bit whenever it blends, so every evaluated colour carries an error allowance `err` in LSB:

    * the result of one blend may be off by < 1 LSB (truncation of the delta),
    * a fade start colour captured while another fade was running inherits that fade's allowance, weighted
      by how much of the start colour is still in the blend ((1-ratio) * start_err),
    * a fade-out blends towards the (moving) colour beneath it: ratio * err(beneath).

Statement -> model:
    * entries are ordered by priority, ties by key (string order); the top entry is the logical colour;
    * color(c, fade) with fade > 0 starts at the colour that was showing at the new entry's level at command
      time (everything at or below its (priority, key) position, which includes the entry it replaces) and moves
      linearly to c; at and after the end it is c;
    * a key that already exists is replaced; a command with a LOWER priority than the existing entry of the same
      key is ignored (documented in light.py: "Incoming priority is lower than an existing stack item with the
      same key. Not adding to stack.");
    * remove(key, fade > 0) replaces the entry by a transparent fade-out from the colour its level showed to
      whatever is beneath (evaluated live); remove(key, 0) removes it; removing a key that is currently fading
      out ends the fade-out at once ("do not fade out the fade out"); removing an unknown key is a no-op;
    * an empty stack is off.
"""

OFF = (0.0, 0.0, 0.0)
EPS = 1e-6


def lerp(a, b, r):
    return tuple(a[i] + (b[i] - a[i]) * r for i in range(3))


class Entry:
    __slots__ = ("priority", "key", "start_time", "start", "start_err", "dest_time", "dest", "seq")

    def __init__(self, priority, key, start_time, start, start_err, dest_time, dest, seq=0):
        self.priority = priority
        self.key = key
        self.start_time = start_time
        self.start = start
        self.start_err = start_err
        self.dest_time = dest_time      # 0 => no fade
        self.dest = dest                # None => transparent fade-out
        self.seq = seq

    def pos(self):
        return (self.priority, self.key)

    def __repr__(self):
        return "<%s p=%s %s@%.4f -> %s@%.4f>" % (self.key, self.priority, _fmt(self.start), self.start_time,
                                                 _fmt(self.dest), self.dest_time)


def _fmt(c):
    if c is None:
        return "transparent"
    return "(%s)" % ",".join("%.1f" % x for x in c)


class Eval:
    """Result of evaluating a stack: colour, allowance, and the segment of the fade that produced it."""

    __slots__ = ("color", "err", "seg", "kind")

    def __init__(self, color, err, seg, kind):
        self.color = color
        self.err = err
        self.seg = seg          # (endpoint a, endpoint b) or None when nothing is fading
        self.kind = kind        # "static" | "fade" | "fadeout" | "off"


class LightStackModel:

    def __init__(self, on_color=(255.0, 255.0, 255.0), default_fade_ms=0):
        self.entries = []       # sorted: highest first
        self.on_color = tuple(float(x) for x in on_color)
        self.default_fade_ms = default_fade_ms
        self.seq = 0

    # -- evaluation -------------------------------------------------------------------------------
    @staticmethod
    def _eval(entries, t):
        for i, e in enumerate(entries):
            if e.dest is None:
                if t >= e.dest_time:
                    continue                      # finished fade-out is fully transparent
                below = LightStackModel._eval(entries[i + 1:], t)
                if t <= e.start_time:
                    return Eval(e.start, e.start_err, (e.start, below.color), "fadeout")
                r = (t - e.start_time) / (e.dest_time - e.start_time)
                return Eval(lerp(e.start, below.color, r), (1 - r) * e.start_err + r * below.err + 1.0,
                            (e.start, below.color), "fadeout")
            if not e.dest_time or t >= e.dest_time:
                return Eval(e.dest, 0.0, None, "static")
            if t <= e.start_time:
                return Eval(e.start, e.start_err, (e.start, e.dest), "fade")
            r = (t - e.start_time) / (e.dest_time - e.start_time)
            return Eval(lerp(e.start, e.dest, r), (1 - r) * e.start_err + 1.0, (e.start, e.dest), "fade")
        return Eval(OFF, 0.0, None, "off")

    def color_at(self, t):
        return self._eval(self.entries, t)

    def _level(self, priority, key):
        """Entries at or below the (priority, key) position."""
        return [e for e in self.entries if e.pos() <= (priority, key)]

    def _find(self, key, t, live_only=True):
        for e in self.entries:
            if e.key == key:
                if live_only and e.dest is None and t >= e.dest_time:
                    return None
                return e
        return None

    def _sort(self):
        self.entries.sort(key=lambda e: (e.priority, e.key), reverse=True)

    def prune(self, t):
        self.entries = [e for e in self.entries if not (e.dest is None and t >= e.dest_time)]

    # -- operations -------------------------------------------------------------------------------
    def color(self, t, color, fade_ms, priority, key):
        """Returns "ignored" | "added"."""
        if key is None:
            key = ""
        if fade_ms is None:
            fade_ms = self.default_fade_ms
        color = tuple(float(x) for x in color)
        self.prune(t)
        old = self._find(key, t)
        if old is not None and old.dest is not None and priority < old.priority:
            return "ignored"
        if fade_ms:
            ev = self._eval(self._level(priority, key), t)
            start, start_err, dest_time = ev.color, ev.err, t + fade_ms / 1000.0
        else:
            start, start_err, dest_time = None, 0.0, 0
        self.entries = [e for e in self.entries if e.key != key]
        self.seq += 1
        self.entries.append(Entry(priority, key, t, start, start_err, dest_time, color, self.seq))
        self._sort()
        return "added"

    def remove(self, t, key, fade_ms):
        """Returns "absent" | "removed" | "fadeout" | "fadeout_cut"."""
        if fade_ms is None:
            fade_ms = self.default_fade_ms
        self.prune(t)
        old = self._find(key, t)
        if old is None:
            return "absent"
        if old.dest is None:
            self.entries = [e for e in self.entries if e.key != key]
            return "fadeout_cut"
        if fade_ms:
            idx = self.entries.index(old)
            ev = self._eval(self.entries[idx:], t)
            self.entries[idx] = Entry(old.priority, key, t, ev.color, ev.err, t + fade_ms / 1000.0, None, old.seq)
            return "fadeout"
        self.entries = [e for e in self.entries if e.key != key]
        return "removed"

    def clear(self, t):
        self.entries = []

    # -- queries for the workload / oracle --------------------------------------------------------
    def last_fade_end(self, t):
        """Latest instant at which any entry (visible or not) still changes."""
        m = t
        for e in self.entries:
            if e.dest_time and e.dest_time > m:
                m = e.dest_time
        return m

    def running(self, t):
        """(start, end) of every fade that is still running at t (any level)."""
        return sorted((e.start_time, e.dest_time) for e in self.entries if e.dest_time and e.dest_time > t)

    def keys(self, t):
        return [e.key for e in self.entries if not (e.dest is None and t >= e.dest_time)]

    def describe(self):
        return "[" + ", ".join(repr(e) for e in self.entries) + "]"


# ---------------------------------------------------------------------------------------------------
# logical colour -> hardware channel brightness
# ---------------------------------------------------------------------------------------------------

def profile_lut(gamma=2.5, whitepoint=(1.0, 1.0, 1.0), linear_slope=1.0, linear_cutoff=0.0):
    """Colour-correction curve as documented for `color_correction_profiles` (Fadecandy curve): the input is
    scaled by the whitepoint; below the cutoff the curve is linear with `linear_slope`, above it a power curve
    with exponent `gamma`.  Returns a function channel, value(0..255 float) -> corrected value (float 0..255)."""
    scale = 1.0 - linear_cutoff

    def f(channel, value):
        v = value / 255.0 * whitepoint[channel]
        if v * linear_slope <= linear_cutoff:
            out = linear_slope * v * 255.0
        else:
            out = linear_cutoff + pow((v - linear_slope * linear_cutoff) / scale, gamma) * scale * 255.0
        return max(0.0, min(out, 255.0))
    return f


def corrected_candidates(color, brightness, profile):
    """Every reading of 'after brightness and colour correction' the statement allows: brightness first or
    profile first (relaxation: the statement does not fix the order), and the intermediate colour either exact
    or quantised to 8 bit (rounded down, to nearest, or up).  `color` is an exact 8-bit colour (final states
    only).  Returns a list of corrected colours (floats 0..255)."""
    import math
    quant = (lambda x: x, lambda x: float(math.floor(x + 1e-9)), lambda x: float(round(x)),
             lambda x: float(math.ceil(x - 1e-9)))
    if brightness == 1.0:
        quant = quant[:1]
    out = []

    def add(c):
        c = tuple(c)
        if c not in out:
            out.append(c)

    for q in quant:
        c = [q(x * brightness) for x in color]
        if profile is not None:
            c = [profile(i, c[i]) for i in range(3)]
        add(c)
    if profile is not None and brightness != 1.0:
        for q in quant:
            add([q(profile(i, color[i])) * brightness for i in range(3)])
    return out


def channel_brightness(corrected, logical, roles, rgbw_style):
    """Map a corrected colour to a list of allowed {role: brightness 0..1} assignments for a light with the given
    channel roles (more than one only where the statement leaves a choice).

    roles: iterable of "red"/"green"/"blue"/"white".  rgbw_style applies to lights that have all four.
      duck_rgb:   white = min(r,g,b), r/g/b reduced by that minimum
      min_rgb:    white = min(r,g,b), r/g/b unchanged
      white_only: a shade of white (r==g==b) is shown on the white channel only, anything else on r/g/b only
                  (relaxation: "shade of white" may be judged on the logical or on the corrected colour)
    A white channel of a light that is not RGBW shows min(r,g,b).
    """
    r, g, b = corrected
    mn = min(r, g, b)
    roles = list(roles)
    is_rgbw = all(x in roles for x in ("red", "green", "blue", "white"))
    style = rgbw_style if is_rgbw else None
    val = {"red": r, "green": g, "blue": b}
    if style == "white_only":
        verdicts = {abs(r - g) < 1e-9 and abs(g - b) < 1e-9,
                    logical[0] == logical[1] == logical[2]}
        out = []
        for is_white in sorted(verdicts):
            d = {}
            for role in roles:
                if role == "white":
                    d[role] = (mn if is_white else 0.0) / 255.0
                else:
                    d[role] = (0.0 if is_white else val[role]) / 255.0
            out.append(d)
        return out
    d = {}
    for role in roles:
        if role == "white":
            d[role] = mn / 255.0
        elif style == "duck_rgb":
            d[role] = (val[role] - mn) / 255.0
        else:
            d[role] = val[role] / 255.0
    return [d]


def hw_alternatives(logical, brightness, profile, roles, rgbw_style):
    """All allowed {role: brightness} assignments for an exact 8-bit logical colour."""
    out = []
    for c in corrected_candidates(logical, brightness, profile):
        for d in channel_brightness(c, logical, roles, rgbw_style):
            if d not in out:
                out.append(d)
    return out
