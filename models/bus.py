"""Reference model of the MPF event bus (property C01), written from the property statement.

The statement:

  Every event posted to the event bus is delivered exactly once to each handler that is registered
  for it when its dispatch begins and is not removed before its turn (and whose condition holds), in
  descending priority order, with handler-registered arguments overriding posted ones, and handlers
  of different events never nest or interleave.  Events posted while an event is being handled are
  dispatched after that event's remaining handlers and before any event that was already waiting.
  An event's completion callback runs exactly once, only after its handlers and everything they
  transitively posted have been dispatched.

The model is a *lock-step* executable model: the check executes one generated handler program; every
operation of the program (add/remove handler, post) is applied to the SUT and to the model at the same
moment, and every handler/callback invocation made by the SUT is shown to the model, which decides
whether that invocation is the (or, where the statement leaves a choice, *a*) legal next step.

Structure (from the statement, not from events.py):

* pending posts: a stack of FIFO queues.  All posts made while event X is being handled form one
  FIFO queue that is pushed when X's dispatch ends; the next dispatch is the head of the top-most
  non-empty queue.  Posts made while no event is being handled go to the tail of the bottom queue.
  => the order in which posts are *dispatched* is completely determined.
* a dispatch takes a snapshot of the registrations of its event when it begins.  Registrations in
  the snapshot are REQUIRED, OPTIONAL or FORBIDDEN at any moment (see ``_status``).
* completion: a post is complete when its own dispatch and the dispatches of everything posted by
  its handlers (transitively) are finished; the callback is legal only then.

What the model cannot see is the instant a dispatch begins or ends (no delivery = nothing to observe),
so it advances lazily: a dispatch is begun/finished when an observation forces it (an invocation that
belongs to a later post, a callback, quiescence).  This is exact because between two observations
nothing can change the registry - except code that runs outside any handler (timers, tasks, callbacks);
registry changes made there while posts are waiting are the one place where "when its dispatch begins"
is not determined by the statement, and they make the affected registration OPTIONAL for the waiting
posts (relaxation R3 below).

Relaxations (each is something the statement leaves open):

R1  order among equal priorities is unspecified: only "no REQUIRED registration of strictly higher
    priority is still undelivered" and "priorities never increase within a dispatch" are checked.
R2  a handler removed during the dispatch before its turn may or may not run ("...and is not removed
    before its turn" only fixes the ones that were not removed): OPTIONAL.
R3  a registration added/removed outside any handler while a post of that event is waiting: OPTIONAL
    for that post (dispatch begin of a post made outside a handler is somewhere between the post and
    its first delivery).
R4  a condition whose value differs between the posted kwargs and the merged (posted + registered)
    kwargs, or that changes because a relay handler rewrote the kwargs: OPTIONAL.
R5  order among completion callbacks is unspecified.
"""
from collections import deque

REQUIRED, OPTIONAL, FORBIDDEN = "required", "optional", "forbidden"
PENDING, ACTIVE, DONE = "pending", "active", "done"

_OPS = {
    "==": lambda a, b: a == b,
    "!=": lambda a, b: a != b,
    ">": lambda a, b: a > b,
    "<": lambda a, b: a < b,
}


def cond_to_string(cond):
    """cond: list of [key, op, value] (conjunction) -> MPF condition text."""
    return " and ".join("%s%s%d" % (k, op, v) for k, op, v in cond)


def cond_eval(cond, kwargs):
    """A condition that cannot be evaluated (missing argument) does not hold."""
    for k, op, v in cond:
        if k not in kwargs:
            return False
        try:
            if not _OPS[op](kwargs[k], v):
                return False
        except TypeError:
            return False
    return True


class Reg:
    """One registration (what add_handler creates)."""

    __slots__ = ("rid", "hid", "event", "prio", "kw", "cond", "alive", "key")

    def __init__(self, rid, hid, event, prio, kw, cond):
        self.rid = rid
        self.hid = hid
        self.event = event
        self.prio = prio
        self.kw = dict(kw)
        self.cond = cond
        self.alive = True
        self.key = None       # SUT side handle (EventHandlerKey), not used by the model

    def __repr__(self):
        return "r%d(%s on %s prio %s kw %r cond %s%s)" % (
            self.rid, self.hid, self.event, self.prio, self.kw,
            cond_to_string(self.cond) if self.cond else None, "" if self.alive else " removed")


class Post:

    __slots__ = ("pid", "event", "type", "kw", "bare", "has_cb", "parent", "depth", "state", "open",
                 "cb_calls", "final_kw", "stopped", "optional", "extra", "ctx", "fastpath", "last_ret",
                 "q_alive_at_post", "q_nregs_at_post", "q_delivered", "q_last_prio", "q_order")

    def __init__(self, pid, event, ev_type, kw, bare, has_cb, parent, ctx):
        self.pid = pid
        self.event = event
        self.type = ev_type
        self.kw = dict(kw)
        self.bare = bare
        self.has_cb = has_cb
        self.parent = parent
        self.depth = 0 if parent is None else parent.depth + 1
        self.state = PENDING
        self.open = 0            # unfinished dispatches in the subtree rooted here (including itself)
        self.cb_calls = 0
        self.final_kw = None
        self.stopped = False
        self.optional = set()    # rids made OPTIONAL by R3
        self.extra = []          # regs removed outside a handler while this post was waiting (R3)
        self.ctx = ctx
        self.fastpath = False    # nobody was registered for the event when it was posted (and no callback)
        self.last_ret = None
        self.q_alive_at_post = None   # queue posts only (see BusModel.post_queue)
        self.q_nregs_at_post = 0
        self.q_delivered = set()
        self.q_last_prio = None
        self.q_order = []

    def __repr__(self):
        return "post#%d(%s%s from %s)" % (self.pid, self.event, "/" + self.type if self.type else "", self.ctx)


class Dispatch:

    __slots__ = ("post", "snapshot", "delivered", "kwargs", "kw0", "posted", "last_prio", "order")

    def __init__(self, post, snapshot):
        self.post = post
        self.snapshot = snapshot
        self.delivered = set()
        self.kwargs = dict(post.kw)      # posted kwargs as updated by relay handlers
        self.kw0 = dict(post.kw)
        self.posted = deque()
        self.last_prio = None
        self.order = []


class BusModel:
    """Lock-step reference model.  `violation(rule, sig, msg)` is called for every discrepancy."""

    def __init__(self, violation, probe=None):
        self.violation = violation
        self.probe = probe or (lambda name: None)
        self.registry = {}        # event -> [Reg] in registration order
        self.regs = []            # every registration ever made
        self.posts = []           # every post ever made (pid = index)
        self.stack = []           # stack of FIFO queues (bottom first)
        self.cur = None           # Dispatch (begun, not known to be finished)
        self.depth = 0            # handlers on the call stack (must never exceed 1)
        self.cb_open = []         # posts with a callback that has not run yet
        self.n_deliveries = 0
        self.live_bare = {}       # event -> the one outstanding post without kwargs (see handler_enter)
        self.qcb_open = []        # queue posts whose completion callback has not run yet

    # ------------------------------------------------------------------ registry
    def in_handler(self):
        return self.depth > 0

    def add(self, event, hid, prio, kw, cond):
        reg = Reg(len(self.regs), hid, event, prio, kw, cond)
        self.regs.append(reg)
        self.registry.setdefault(event, []).append(reg)
        if not self.in_handler():
            # R3: added outside a handler while posts of this event are waiting
            for p in self._waiting_posts(event):
                p.optional.add(reg.rid)
                self.probe("r3_add_while_waiting")
        return reg

    def _remove(self, reg):
        if not reg.alive:
            return
        reg.alive = False
        self.registry[reg.event].remove(reg)
        if not self.in_handler():
            for p in self._waiting_posts(reg.event):
                p.optional.add(reg.rid)
                p.extra.append(reg)
                self.probe("r3_remove_while_waiting")
        if self.cur is not None and self.cur.post.event == reg.event and reg in self.cur.snapshot \
                and reg.rid not in self.cur.delivered:
            self.probe("r2_removed_before_turn")

    def remove_key(self, reg):
        self._remove(reg)

    def remove_event(self, event, hid):
        for reg in list(self.registry.get(event, [])):
            if reg.hid == hid:
                self._remove(reg)

    def remove_method(self, hid):
        for event in list(self.registry.keys()):
            for reg in list(self.registry[event]):
                if reg.hid == hid:
                    self._remove(reg)

    def replace(self, event, hid, prio, kw):
        """replace_handler: drop matching registrations (same callable; same kwargs if kwargs given), then add."""
        for reg in list(self.registry.get(event, [])):
            if reg.hid == hid and (not kw or reg.kw == kw):
                self._remove(reg)
        return self.add(event, hid, prio, kw, None)

    def _waiting_posts(self, event):
        for q in self.stack:
            for p in q:
                if p.event == event:
                    yield p
        if self.cur is not None:
            for p in self.cur.posted:
                if p.event == event:
                    yield p

    # ------------------------------------------------------------------ posting
    def post(self, event, ev_type, kw, bare, has_cb, ctx):
        parent = self.cur.post if self.in_handler() and self.cur is not None else None
        p = Post(len(self.posts), event, ev_type, kw, bare, has_cb, parent, ctx)
        self.posts.append(p)
        p.fastpath = not has_cb and not self.registry.get(event)
        if bare:
            assert event not in self.live_bare, "workload must keep one bare post per event outstanding"
            self.live_bare[event] = p
        a = p
        while a is not None:
            a.open += 1
            a = a.parent
        if has_cb:
            self.cb_open.append(p)
        if parent is not None:
            # "posted while an event is being handled": one FIFO queue per dispatch
            self.cur.posted.append(p)
        else:
            if not self.stack:
                self.stack.append(deque())
            self.stack[0].append(p)
        return p

    # ------------------------------------------------------------------ dispatch bookkeeping
    def _merged(self, d, reg):
        m = dict(d.kwargs)
        m.update(reg.kw)          # "handler-registered arguments overriding posted ones"
        return m

    def _status(self, d, reg):
        if reg.rid in d.delivered:
            return FORBIDDEN      # "exactly once"
        if d.post.stopped:
            return FORBIDDEN      # boolean event: stops at the first False
        st = REQUIRED
        if reg.cond:
            vals = {cond_eval(reg.cond, d.kw0), cond_eval(reg.cond, d.kwargs), cond_eval(reg.cond, self._merged(d, reg))}
            if vals == {False}:
                return FORBIDDEN
            if len(vals) > 1:
                st = OPTIONAL     # R4
        if not reg.alive:
            st = OPTIONAL         # R2
        if reg.rid in d.post.optional:
            st = OPTIONAL         # R3
        return st

    def _begin_next(self):
        while self.stack and not self.stack[-1]:
            self.stack.pop()
        if not self.stack:
            return False
        post = self.stack[-1].popleft()
        snap = list(self.registry.get(post.event, []))
        for reg in post.extra:
            if reg not in snap:
                snap.append(reg)
        post.state = ACTIVE
        self.cur = Dispatch(post, snap)
        return True

    def _finish_cur(self, rule, why):
        d = self.cur
        for reg in d.snapshot:
            if reg.rid not in d.delivered and self._status(d, reg) == REQUIRED:
                sig = "fastpath" if d.post.fastpath else "handler"
                self.violation(rule, sig, "%r: %r was registered when the dispatch began, was not removed and its "
                               "condition holds, but it was not called (%s); delivered so far: %s"
                               % (d.post, reg, why, d.order))
                d.delivered.add(reg.rid)     # known finding: resynchronise
        if d.posted:
            self.stack.append(d.posted)
        p = d.post
        p.state = DONE
        if self.live_bare.get(p.event) is p:
            del self.live_bare[p.event]
        p.final_kw = dict(d.kwargs)
        a = p
        while a is not None:
            a.open -= 1
            a = a.parent
        self.cur = None

    # ------------------------------------------------------------------ observations
    def handler_enter(self, hid, event, kwargs):
        """The SUT invoked the callable `hid` (as registered for `event`) with `kwargs`.  Returns (post, reg).

        Attribution: posts carry their id in the posted kwargs ("pid"); a *bare* post (no kwargs at all) is
        recognised by its event name - the workload keeps at most one bare post per event name alive.
        """
        if self.depth > 0:
            self.violation("nesting", "handler", "handler %s called with %r while a handler of %r is still running"
                           % (hid, kwargs, self.cur.post if self.cur else None))
        self.depth += 1
        pid = kwargs.get("pid")
        target = None
        if pid is not None:
            if not isinstance(pid, int) or not 0 <= pid < len(self.posts):
                self.violation("spurious", "unknown post", "handler %s called with unknown pid %r" % (hid, pid))
                return None, None
            target = self.posts[pid]
        else:
            target = self.live_bare.get(event)
            if target is None:
                self.violation("spurious", "no pending post", "handler %s (registered for %s) called with %r but no "
                               "post without kwargs of that event is outstanding" % (hid, event, kwargs))
                return None, None
        if target.type == "queue":
            self.violation("spurious", "queue post", "handler %s called for the queue event %r without a queue argument"
                           % (hid, target))
            return target, None
        if target.event != event:
            self.violation("wrong_event", "handler", "handler %s registered for %s called for %r" % (hid, event, target))
            return target, None
        if target.state == DONE:
            self.violation("late_delivery", "after dispatch end",
                           "handler %s called for %r (%r) after the dispatch of that post had ended "
                           "(a later post was already being dispatched)" % (hid, target, kwargs))
            return target, None
        while True:
            if self.cur is None and not self._begin_next():
                self.violation("spurious", "lost post", "handler %s called for %r which is not waiting" % (hid, target))
                return None, None
            if self.cur.post is target:
                break
            self._finish_cur("missed_or_overtaken", "handler %s was called for the later %r first" % (hid, target))
        d = self.cur
        cands = [r for r in d.snapshot if r.hid == hid]
        if not cands:
            late = [r for r in self.registry.get(d.post.event, []) if r.hid == hid]
            self.violation("not_registered", "added after begin" if late else "never registered",
                           "handler %s called for %r but it was not registered for %s when the dispatch began "
                           "(snapshot: %s)" % (hid, d.post, d.post.event, d.snapshot))
            return d.post, None
        fresh = [r for r in cands if r.rid not in d.delivered]
        if not fresh:
            self.violation("delivered_twice", "handler", "handler %s called again for %r (%r); delivered so far: %s"
                           % (hid, d.post, kwargs, d.order))
            return d.post, None
        match = [r for r in fresh if self._merged(d, r) == kwargs]
        if not match:
            self.violation("wrong_kwargs", "handler", "handler %s called for %r with %r; expected one of %s"
                           % (hid, d.post, kwargs, [self._merged(d, r) for r in fresh]))
            return d.post, None
        # several identical candidates (the workload avoids them): highest priority first, required before optional
        match.sort(key=lambda r: (-r.prio, self._status(d, r) != REQUIRED, r.rid))
        reg = None
        for r in match:
            if self._status(d, r) != FORBIDDEN:
                reg = r
                break
        if reg is None:
            reg = match[0]
            if d.post.stopped:
                self.violation("after_boolean_stop", "handler", "handler %r called for %r after a handler returned False"
                               % (reg, d.post))
            else:
                self.violation("condition", "handler", "handler %r called for %r with %r although its condition is false"
                               % (reg, d.post, kwargs))
            d.delivered.add(reg.rid)
            return d.post, reg
        # descending priority order (R1: ties free)
        if d.last_prio is not None and reg.prio > d.last_prio:
            self.violation("priority_order", "ascending", "%r (priority %s) called after priority %s in %r: %s"
                           % (reg, reg.prio, d.last_prio, d.post, d.order))
        for r in d.snapshot:
            if r.prio > reg.prio and r.rid not in d.delivered and self._status(d, r) == REQUIRED:
                self.violation("priority_order", "skipped higher", "%r called before %r (higher priority, still due) in %r"
                               % (reg, r, d.post))
        if not reg.alive:
            self.probe("r2_removed_still_called")
        d.delivered.add(reg.rid)
        d.last_prio = reg.prio
        d.order.append("r%d:%s" % (reg.rid, reg.hid))
        self.n_deliveries += 1
        return d.post, reg

    def handler_exit(self, ret):
        d = self.cur
        self.depth -= 1
        if d is None:
            return
        d.post.last_ret = ret
        if d.post.type == "boolean" and ret is False:
            d.post.stopped = True
        if d.post.type == "relay" and isinstance(ret, dict):
            d.kwargs.update(ret)

    def callback_enter(self, post, kwargs):
        post.cb_calls += 1
        if post in self.cb_open:
            self.cb_open.remove(post)
        if post.cb_calls > 1:
            self.violation("callback_twice", "callback", "completion callback of %r called %d times" % (post, post.cb_calls))
            return
        if post.open > 0:
            if self.depth > 0:
                self.violation("callback_early", "inside handler", "completion callback of %r called while a handler of "
                               "%r is running and %d dispatches of its subtree are outstanding"
                               % (post, self.cur.post if self.cur else None, post.open))
                return
            # force lazy progress: the subtree of `post` is a contiguous stretch of the dispatch order
            while post.open > 0:
                if self.cur is None and not self._begin_next():
                    break
                self._finish_cur("callback_early", "the completion callback of %r ran first" % (post,))
            if post.open > 0:
                self.violation("callback_early", "lost post", "callback of %r but %d dispatches of its subtree never "
                               "became pending" % (post, post.open))
                return
        exp = post.final_kw if post.final_kw is not None else post.kw
        got = {k: v for k, v in kwargs.items() if k != "ev_result"}
        if got != exp:
            self.violation("callback_kwargs", "callback", "callback of %r called with %r, expected %r (+ev_result)"
                           % (post, kwargs, exp))
        if post.stopped and kwargs.get("ev_result", None) is not False:
            self.violation("callback_kwargs", "boolean result", "callback of stopped boolean %r lacks ev_result=False: %r"
                           % (post, kwargs))

    # ------------------------------------------------------------------ queue events (per-delivery rules only)
    # "Every event posted ... is delivered ... to each handler that is registered for it ... (and whose condition
    # holds), in descending priority order, with handler-registered arguments overriding posted ones" also holds
    # for events posted with post_queue / post_queue_async.  Their handlers may wait, so they run in a task of
    # their own, interleaved with other events; *when* they run and how waits are honoured is property C02.
    # Here only what C01 states for every event is judged, per delivery:
    #   - the callable was registered for that event at some moment between the post and the delivery,
    #   - exactly-once per registration, priorities never increase (ties free),
    #   - kwargs = posted kwargs overlaid by the registered kwargs, condition not false on both readings (R4),
    #   - at completion: every registration that existed at the post, was never removed and whose condition holds
    #     on both readings has been called; the completion callback runs exactly once, with the posted kwargs.
    def post_queue(self, event, kw, ctx):
        p = Post(len(self.posts), event, "queue", kw, False, True, None, ctx)
        self.posts.append(p)
        p.q_alive_at_post = [r for r in self.registry.get(event, [])]
        p.q_nregs_at_post = len(self.regs)
        self.qcb_open.append(p)
        return p

    def qhandler_enter(self, hid, event, kwargs):
        """The SUT invoked callable `hid` (registered for `event`) with a `queue` argument and `kwargs`."""
        pid = kwargs.get("pid")
        if not isinstance(pid, int) or not 0 <= pid < len(self.posts) or self.posts[pid].type != "queue":
            self.violation("spurious", "unknown queue post", "handler %s called with a queue argument and %r, which is "
                           "not a pending queue post" % (hid, kwargs))
            return None, None
        p = self.posts[pid]
        if p.event != event:
            self.violation("wrong_event", "queue handler", "handler %s registered for %s called for %r" % (hid, event, p))
            return p, None
        if p.cb_calls:
            self.violation("late_delivery", "after queue completion", "handler %s called for %r after its completion "
                           "callback ran" % (hid, p))
            return p, None
        cands = [r for r in p.q_alive_at_post if r.hid == hid] + \
                [r for r in self.regs[p.q_nregs_at_post:] if r.event == event and r.hid == hid]
        if not cands:
            self.violation("not_registered", "queue handler", "handler %s called for %r but it was not registered for %s "
                           "at any time since the post" % (hid, p, event))
            return p, None
        fresh = [r for r in cands if r.rid not in p.q_delivered]
        if not fresh:
            self.violation("delivered_twice", "queue handler", "handler %s called again for %r (%r); delivered so far: %s"
                           % (hid, p, kwargs, p.q_order))
            return p, None

        def merged(r):
            m = dict(p.kw)
            m.update(r.kw)        # "handler-registered arguments overriding posted ones"
            return m
        match = [r for r in fresh if merged(r) == kwargs]
        if not match:
            self.violation("wrong_kwargs", "queue handler", "handler %s called for %r with %r; expected one of %s"
                           % (hid, p, kwargs, [merged(r) for r in fresh]))
            return p, None
        # Registrations of one callable that look the same to an observer (replace_handler creates them: the
        # replaced one may still be in the task's handler list) cannot be told apart.  Book the delivery on a live
        # one first (those are the ones the completion rule asks for) and judge condition and priority on the
        # most favourable candidate, so that the ambiguity can never raise an alarm.
        match.sort(key=lambda r: (not r.alive, -r.prio, r.rid))
        reg = match[0]
        if all(r.cond and not cond_eval(r.cond, p.kw) and not cond_eval(r.cond, merged(r)) for r in match):
            self.violation("condition", "queue handler", "handler %r called for %r with %r although its condition is false"
                           % (reg, p, kwargs))
        legal = [r.prio for r in match if p.q_last_prio is None or r.prio <= p.q_last_prio]
        if not legal:
            self.violation("priority_order", "ascending", "%r (priority %s) called after priority %s in %r: %s"
                           % (reg, min(r.prio for r in match), p.q_last_prio, p, p.q_order))
            legal = [reg.prio]
        p.q_delivered.add(reg.rid)
        p.q_last_prio = max(legal)
        p.q_order.append("r%d:%s" % (reg.rid, reg.hid))
        self.n_deliveries += 1
        return p, reg

    def qcallback_enter(self, p, kwargs):
        p.cb_calls += 1
        if p in self.qcb_open:
            self.qcb_open.remove(p)
        if p.cb_calls > 1:
            self.violation("callback_twice", "queue callback", "completion of %r reported %d times" % (p, p.cb_calls))
            return
        for r in p.q_alive_at_post:
            if r.alive and r.rid not in p.q_delivered:
                m = dict(p.kw)
                m.update(r.kw)
                if not r.cond or (cond_eval(r.cond, p.kw) and cond_eval(r.cond, m)):
                    self.violation("missed", "queue handler", "%r completed but %r, registered since before the post, "
                                   "never removed and with its condition holding, was not called; delivered: %s"
                                   % (p, r, p.q_order))
                    p.q_delivered.add(r.rid)
        if kwargs != p.kw:
            self.violation("callback_kwargs", "queue callback", "completion of %r reported %r, expected %r" % (p, kwargs, p.kw))

    def quiesce_queue(self, why="end of run"):
        for p in list(self.qcb_open):
            self.violation("callback_missing", "queue callback", "queue event %r never completed (%s); delivered: %s"
                           % (p, why, p.q_order))
            self.qcb_open.remove(p)

    def quiesce(self, why="quiescence"):
        """The loop is idle: everything posted must have been dispatched and completed."""
        if self.depth > 0:
            self.violation("nesting", "quiesce", "loop idle while a handler is on the stack")
            return
        while True:
            if self.cur is not None:
                self._finish_cur("missed", why)
            if not self._begin_next():
                break
        for p in list(self.cb_open):
            self.violation("callback_missing", "callback", "completion callback of %r never ran (%s)" % (p, why))
            self.cb_open.remove(p)
