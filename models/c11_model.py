"""Reference model for C11: per-player shadow state of the c11 machine (machines/c11).

Pure Python, no MPF imports.  The semantics of every device are written down from the device
documentation / config_spec defaults (counter, accrual, sequence, shot + profile, shot group,
achievement, timer, variable_player, player_vars).  The model is *driven* by the check: it is told
which stimulus event was dispatched, for which player, and applies the documented effect.

Shadow of one player:
    {"vars": {name: simple value}, "lbs": {name: [value, enabled, completed]}, "ach": None | {name: [state, selected]}}
Device-level (not per-player) model state lives in `dev`.
"""

STATE_NAMES = ["unlit", "lit", "flashing"]
NSTATES = 3
SHOTS = {"sh_a": True, "sh_b": True, "sh_c": False}          # name -> enabled when first loaded
SHOT_ORDER = ["sh_a", "sh_b", "sh_c"]

LB = {
    # kind, mode, start value, complete value, signed hit value, persist, reset_on_complete, disable_on_complete, start_enabled
    "c_up": dict(kind="counter", mode="m1", start=0, ccv=3, hit=1, up=True, persist=True, roc=True, doc=True, se=True),
    "c_down": dict(kind="counter", mode="m1", start=5, ccv=0, hit=-2, up=False, persist=True, roc=False, doc=False, se=False),
    "c_dl": dict(kind="counter", mode="m1", start=0, ccv=None, hit=1, up=True, persist=True, roc=True, doc=True, se=True),
    "c_np": dict(kind="counter", mode="m1", start=0, ccv=4, hit=1, up=True, persist=False, roc=True, doc=False, se=True),
    "a1": dict(kind="accrual", mode="m1", n=3, persist=True, roc=True, doc=True, se=True),
    "q1": dict(kind="sequence", mode="m1", n=3, persist=True, roc=False, doc=True, se=True),
    "c_m2": dict(kind="counter", mode="m2", start=10, ccv=None, hit=3, up=True, persist=True, roc=True, doc=True, se=True),
}
MODE_LBS = {"m1": ["c_up", "c_down", "c_dl", "c_np", "a1", "q1"], "m2": ["c_m2"]}

ACH = {
    # initial state, restart_after_stop_possible, restart_on_next_ball_when_started, enable_on_next_ball_when_enabled
    "ach1": dict(initial="enabled", rasp=True, ronb=False, eonb=True),
    "ach2": dict(initial="disabled", rasp=False, ronb=True, eonb=False),
    # members of achievement group ag2 (same mode)
    "g_a": dict(initial="enabled", rasp=True, ronb=False, eonb=True),
    "g_b": dict(initial="enabled", rasp=True, ronb=False, eonb=True),
    "g_c": dict(initial="enabled", rasp=True, ronb=False, eonb=True),
}
G_ACH = ["g_a", "g_b", "g_c"]

Q_ACH = ["q_a", "q_b"]        # achievements of m2, managed by achievement group ag of m1
T1_END = 6
DL_DELAY = 0.3

PLAYER_VARS_INITIAL = {"pv_int": 5, "pv_float": 1.5, "pv_str": "hello", "score": 0}

EMIT_UNIVERSE = set(["timer_t1_complete"])
for _n in LB:
    EMIT_UNIVERSE.add("logicblock_%s_complete" % _n)
for _s in SHOT_ORDER:
    for _st in STATE_NAMES:
        EMIT_UNIVERSE.add("%s_%s_hit" % (_s, _st))


def new_player(number):
    v = {"index": number - 1, "number": number}
    v.update(PLAYER_VARS_INITIAL)
    return {"vars": v, "lbs": {}, "ach": None}


def new_dev():
    return {"t1_running": False, "c_np": None, "attached": {"m1": None, "m2": None}, "seq": {"m1": 0, "m2": 0},
            "load_time": {"m1": None, "m2": None}, "pending_enable": {"m1": [], "m2": []},
            "timeout": {}, "restore_arm": {}, "dl": [], "dl_base_known": True,
            "ag2": new_group(),
            "t1_pause": None,      # pending timed resume of timer t1
            "sg2_rot": False,      # shot group sg2: rotation is off until ev_sg2_rot_on, from config at every mode start
            "sq": {},              # score queue sq_pts: player -> undelivered points [certainly queued, possibly queued,
                                   #   queued after ball_ending stopped waiting for the queue]
            "sq_gate": False}      # the score queue's ball_ending handler has let the current ball end pass


class X:
    """Evaluation context of one effect: the player shadow it applies to, device-level state, time, emitted events."""

    def __init__(self, ps, dev, now, emits, pnum, cfg):
        self.ps = ps
        self.dev = dev
        self.now = now
        self.emits = emits
        self.pnum = pnum
        self.cfg = cfg


# ---------------------------------------------------------------- logic blocks

def lb_start_value(name):
    c = LB[name]
    if c["kind"] == "accrual":
        return [False] * c["n"]
    if c["kind"] == "sequence":
        return 0
    return c["start"]


def lb_state(x, name):
    if name == "c_np":
        return x.dev["c_np"]
    return x.ps["lbs"].get(name)


def _arm(x, name):
    to = x.cfg.get("lb_timeout", {}).get(name)
    if to:
        mode = LB[name]["mode"]
        x.dev["timeout"][name] = {"deadline": x.now + to / 1000.0, "owner": x.pnum, "seq": x.dev["seq"][mode]}


def _cancel(x, name):
    if name in x.dev["timeout"]:
        x.dev["timeout"][name] = None


def lb_enable(x, name):
    st = lb_state(x, name)
    if st is None:
        return
    st[1] = True
    _arm(x, name)


def lb_disable(x, name):
    st = lb_state(x, name)
    if st is None:
        return
    st[1] = False
    _cancel(x, name)


def lb_reset(x, name):
    st = lb_state(x, name)
    if st is None:
        return
    st[2] = False
    st[0] = lb_start_value(name)
    _arm(x, name)


def lb_restart(x, name):
    lb_reset(x, name)
    lb_enable(x, name)


def lb_complete(x, name):
    st = lb_state(x, name)
    if st[2]:
        return
    st[2] = True
    _cancel(x, name)
    x.emits.append("logicblock_%s_complete" % name)
    if LB[name]["roc"]:
        lb_reset(x, name)
    if LB[name]["doc"]:
        lb_disable(x, name)


def _counter_done(name, st):
    c = LB[name]
    if c["ccv"] is None:
        return False
    return st[0] >= c["ccv"] if c["up"] else st[0] <= c["ccv"]


def counter_count(x, name):
    st = lb_state(x, name)
    if st is None or not st[1]:
        return
    st[0] += LB[name]["hit"]
    if _counter_done(name, st):
        lb_complete(x, name)


def counter_ctl(x, name, action, val):
    # control events act on the value whether or not the counter is enabled
    st = lb_state(x, name)
    if st is None:
        return
    if action == "add":
        st[0] += val
    elif action == "jump":
        st[0] = val
    if _counter_done(name, st):
        lb_complete(x, name)


def accrual_hit(x, name, step):
    st = lb_state(x, name)
    if st is None or not st[1]:
        return
    if not st[0][step]:
        st[0][step] = True
    if all(st[0]):
        lb_complete(x, name)


def seq_hit(x, name, step):
    st = lb_state(x, name)
    if st is None or not st[1]:
        return
    if step != st[0]:
        return
    st[0] += 1
    if st[0] >= LB[name]["n"]:
        lb_complete(x, name)


# ---------------------------------------------------------------- shots

def shot_cur(x, n):
    return x.ps["vars"].get("shot_" + n, 0)


def shot_enabled(x, n):
    return bool(x.ps["vars"].get("shot_%s_enabled" % n, False))


def shot_jump(x, n, s, force=True):
    if not shot_enabled(x, n) and not force:
        return
    if s == shot_cur(x, n):
        return
    x.ps["vars"]["shot_" + n] = s


def shot_advance(x, n, force=False):
    if not shot_enabled(x, n) and not force:
        return
    cur = shot_cur(x, n)
    if cur + 1 >= NSTATES:
        if x.cfg.get("loop"):
            x.ps["vars"]["shot_" + n] = 0
        return
    x.ps["vars"]["shot_" + n] = cur + 1


def shot_hit(x, n):
    if not shot_enabled(x, n):
        return
    name = STATE_NAMES[shot_cur(x, n)]
    shot_advance(x, n)
    x.emits.append("%s_%s_hit" % (n, name))


def shot_enable(x, n):
    key = "shot_%s_enabled" % n
    if x.ps["vars"].get(key) is True:
        return
    x.ps["vars"][key] = True


def shot_disable(x, n):
    key = "shot_%s_enabled" % n
    if x.ps["vars"].get(key) is False:
        return
    x.ps["vars"][key] = False


def shot_reset(x, n):
    shot_jump(x, n, 0)


def shot_restart(x, n):
    shot_reset(x, n)
    shot_enable(x, n)


def sg_each(fn):
    def f(x):
        for n in SHOT_ORDER:
            fn(x, n)
    return f


def sg2_rot(on):
    def f(x):
        x.dev["sg2_rot"] = on
    return f


def sg2_rotate(x):
    # rotate_events of a group whose rotation is not enabled do nothing
    if x.dev["sg2_rot"]:
        sg_rotate(x, True)


def sq_add(n):
    """score_queue_player: n points are queued for the player who is up; they arrive digit by digit later."""
    def f(x):
        pool = x.dev["sq"].setdefault(x.pnum, [0, 0, 0])
        if x.dev["sq_gate"]:
            pool[2] += n
        else:
            pool[0 if x.must else 1] += n
    return f


def sg_rotate(x, right=True):
    st = [shot_cur(x, n) for n in SHOT_ORDER]
    new = [st[-1]] + st[:-1] if right else st[1:] + [st[0]]
    for i, n in enumerate(SHOT_ORDER):
        shot_jump(x, n, new[i], force=True)


# ---------------------------------------------------------------- achievements

def _ach(x, n):
    if x.ps["ach"] is None:
        return None
    return x.ps["ach"].get(n)


def ach_enable(x, n):
    a = _ach(x, n)
    if a and a[0] in ("disabled", "started"):
        a[0] = "enabled"


def ach_start(x, n):
    a = _ach(x, n)
    if a and (a[0] == "enabled" or (ACH[n]["rasp"] and a[0] == "stopped")):
        a[0] = "started"
        a[1] = False


def ach_complete(x, n):
    a = _ach(x, n)
    if a and a[0] == "started":
        a[0] = "completed"
        a[1] = False


def ach_stop(x, n):
    a = _ach(x, n)
    if a and a[0] == "started":
        a[0] = "stopped"
        a[1] = False


def ach_disable(x, n):
    a = _ach(x, n)
    if a and (a[0] == "enabled" or (ACH[n]["rasp"] and a[0] == "stopped")):
        a[0] = "disabled"
        a[1] = False


def ach_reset(x, n):
    a = _ach(x, n)
    if a is None:
        return
    a[1] = False
    a[0] = ACH[n]["initial"]


def ach_select(x, n):
    a = _ach(x, n)
    if a and (a[0] == "enabled" or (ACH[n]["rasp"] and a[0] == "stopped")) and not a[1]:
        a[1] = True


def ach_unselect(x, n):
    a = _ach(x, n)
    if a and a[1]:
        a[1] = False


# ---------------------------------------------------------------- achievement group ag2 (g_a, g_b, g_c)
# Options: auto_select false, disable_random true, allow_selection_change_while_disabled false,
# disable_while_achievement_started true, enable_while_no_achievement_started true.
# The group's own state (enabled, current member) is a property of one run of its mode: it starts from scratch
# whenever the mode is loaded; everything else it knows comes from the achievements of the player who is up.

def new_group():
    return {"loaded": False, "enabled": False, "sel": None, "rip": False}


def _g_selectable(x, n):
    a = _ach(x, n)
    return bool(a) and (a[0] == "enabled" or (ACH[n]["rasp"] and a[0] == "stopped"))


def _g_avail(x):
    return [n for n in G_ACH if _g_selectable(x, n)]


def _g_started(x):
    return any((_ach(x, n) or [None])[0] == "started" for n in G_ACH)


def _g_selected(x, n):
    a = _ach(x, n)
    return bool(a and a[1])


def g_select_first(x):
    """select_random_achievement() with disable_random: the first selectable member."""
    g = x.dev["ag2"]
    if not g["enabled"]:
        return
    if g["sel"] and _g_selected(x, g["sel"]):
        ach_unselect(x, g["sel"])
    av = _g_avail(x)
    if av:
        g["sel"] = av[0]
        ach_select(x, av[0])


def g_process(x):
    g = x.dev["ag2"]
    if g["rip"] or not g["enabled"]:
        return
    if all((_ach(x, n) or [None])[0] == "completed" for n in G_ACH):
        g["enabled"] = False
    if not _g_avail(x):
        return
    for n in G_ACH:
        if _g_selected(x, n):
            g["sel"] = n
            return


def g_enable(x):
    g = x.dev["ag2"]
    if not g["loaded"] or g["enabled"]:
        return
    if _g_started(x):
        return
    g["enabled"] = True
    if g["sel"] and _g_selected(x, g["sel"]):
        g["sel"] = None
    g_process(x)


def g_disable(x):
    x.dev["ag2"]["enabled"] = False


def g_member_changed(x):
    g = x.dev["ag2"]
    if not g["loaded"]:
        return
    if _g_started(x):
        if g["enabled"]:
            g_disable(x)
        else:
            g_process(x)
    elif not g["enabled"]:
        g_enable(x)
    else:
        g_process(x)


def g_rotate(x, reverse=False):
    g = x.dev["ag2"]
    if not g["enabled"]:
        return
    if not g["sel"]:
        return                      # nothing selected and auto_select is off
    g["rip"] = True
    if _g_selected(x, g["sel"]):
        ach_unselect(x, g["sel"])
    av = _g_avail(x)
    if not av:
        g["rip"] = False            # (the statement does not let a finished rotation block the group for good)
        return
    if g["sel"] in av:
        i = av.index(g["sel"])
        g["sel"] = av[(i - 1) % len(av)] if reverse else av[(i + 1) % len(av)]
    ach_select(x, g["sel"])
    g["rip"] = False


def g_start_selected(x):
    g = x.dev["ag2"]
    if not g["enabled"]:
        return
    if not g["sel"]:
        g_select_first(x)
    if g["sel"]:
        ach_start(x, g["sel"])


# ---------------------------------------------------------------- timer t1

TICK = "m1_t1_tick"


T1_PAUSE = 1.0


def _t1_done(x):
    if x.ps["vars"].get(TICK, 0) >= T1_END:
        # timer_complete() stops the timer (which also cancels a timed pause)
        x.dev["t1_running"] = False
        x.dev["t1_pause"] = None
        x.emits.append("timer_t1_complete")
        return True
    return False


def t1_start(x):
    if x.dev["t1_running"]:
        return
    if _t1_done(x):
        return
    x.dev["t1_running"] = True
    x.dev["t1_pause"] = None


def t1_stop(x):
    x.dev["t1_running"] = False
    x.dev["t1_pause"] = None


def t1_pause(x):
    """pause with a value: the timer stops ticking and resumes (start()) T1_PAUSE seconds later - unless it is
    started/stopped/completed before, or its mode ends (the timer is stopped when it is removed from the mode)."""
    x.dev["t1_running"] = False
    x.dev["t1_pause"] = {"deadline": x.now + T1_PAUSE, "seq": x.dev["seq"]["m1"], "owner": x.pnum}


def t1_add(x):
    x.ps["vars"][TICK] = x.ps["vars"].get(TICK, 0) + 2
    _t1_done(x)


def t1_jump(x):
    x.ps["vars"][TICK] = 1
    _t1_done(x)


def t1_tick(x):
    x.ps["vars"][TICK] = x.ps["vars"].get(TICK, 0) + 1
    _t1_done(x)


# ---------------------------------------------------------------- player variables

def var_add(name, val):
    def f(x):
        x.ps["vars"][name] = x.ps["vars"].get(name, 0) + val
    return f


def var_set(name, val):
    def f(x):
        x.ps["vars"][name] = val
    return f


def dl_schedule(x):
    # ev_c_dl is a delayed control event: the count happens DL_DELAY later, through the mode's delay manager
    x.dev["dl"].append({"deadline": x.now + DL_DELAY, "must": x.must, "seq": x.dev["seq"]["m1"]})


def _p(fn, *a):
    def f(x):
        return fn(x, *a)
    return f


# event -> [(mode whose handler produces the effect, effect)]   (higher priority mode first)
EFFECTS = {
    "ev_c_up": [("m1", _p(counter_count, "c_up"))],
    "ev_c_up_restart": [("m1", _p(lb_restart, "c_up"))],
    "ev_c_up_add": [("m1", _p(counter_ctl, "c_up", "add", 2))],
    "ev_c_up_jump": [("m1", _p(counter_ctl, "c_up", "jump", 1))],
    "ev_c_down": [("m1", _p(counter_count, "c_down"))],
    "ev_c_down_enable": [("m1", _p(lb_enable, "c_down"))],
    "ev_c_down_disable": [("m1", _p(lb_disable, "c_down"))],
    "ev_c_down_reset": [("m1", _p(lb_reset, "c_down"))],
    "ev_c_np": [("m1", _p(counter_count, "c_np"))],
    "ev_c_dl": [("m1", dl_schedule)],
    "ev_a1_s0": [("m1", _p(accrual_hit, "a1", 0))],
    "ev_a1_s1": [("m1", _p(accrual_hit, "a1", 1))],
    "ev_a1_s2": [("m1", _p(accrual_hit, "a1", 2))],
    "ev_a1_restart": [("m1", _p(lb_restart, "a1"))],
    "ev_a1_disable": [("m1", _p(lb_disable, "a1"))],
    "ev_q1_s0": [("m1", _p(seq_hit, "q1", 0))],
    "ev_q1_s1": [("m1", _p(seq_hit, "q1", 1))],
    "ev_q1_s2": [("m1", _p(seq_hit, "q1", 2))],
    "ev_q1_reset": [("m1", _p(lb_reset, "q1"))],
    "ev_q1_enable": [("m1", _p(lb_enable, "q1"))],
    "s_sh_a_active": [("m1", _p(shot_hit, "sh_a"))],
    "s_sh_b_active": [("m1", _p(shot_hit, "sh_b"))],
    "s_sh_c_active": [("m1", _p(shot_hit, "sh_c"))],
    "ev_sh_a_hit": [("m1", _p(shot_hit, "sh_a"))],
    "ev_sh_a_advance": [("m1", _p(shot_advance, "sh_a"))],
    "ev_sh_a_reset": [("m1", _p(shot_reset, "sh_a"))],
    "ev_sh_b_disable": [("m1", _p(shot_disable, "sh_b"))],
    "ev_sh_b_restart": [("m1", _p(shot_restart, "sh_b"))],
    "ev_sh_b_jump2": [("m1", _p(shot_jump, "sh_b", 2))],
    "ev_sh_c_enable": [("m1", _p(shot_enable, "sh_c"))],
    "ev_sh_c_disable": [("m1", _p(shot_disable, "sh_c"))],
    "ev_sh_c_jump1": [("m1", _p(shot_jump, "sh_c", 1))],
    "ev_sg_rotate": [("m1", _p(sg_rotate, True))],
    "ev_sg_rotate_left": [("m1", _p(sg_rotate, False))],
    "ev_sg_reset": [("m1", sg_each(shot_reset))],
    "ev_sg_enable": [("m1", sg_each(shot_enable))],
    "ev_sg_disable": [("m1", sg_each(shot_disable))],
    "ev_sg2_rot_on": [("m1", sg2_rot(True))],
    "ev_sg2_rot_off": [("m1", sg2_rot(False))],
    "ev_sg2_rotate": [("m1", sg2_rotate)],
    "ev_sq_30": [("m1", sq_add(30))],
    "ev_sq_20": [("m1", sq_add(20))],
    "ev_sq_120": [("m1", sq_add(120))],
    "ev_sq_2": [("m1", sq_add(2))],
    "ev_ach1_start": [("m1", _p(ach_start, "ach1"))],
    "ev_ach1_stop": [("m1", _p(ach_stop, "ach1"))],
    "ev_ach1_complete": [("m1", _p(ach_complete, "ach1"))],
    "ev_ach1_disable": [("m1", _p(ach_disable, "ach1"))],
    "ev_ach1_enable": [("m1", _p(ach_enable, "ach1"))],
    "ev_ach1_reset": [("m1", _p(ach_reset, "ach1"))],
    "ev_ach1_select": [("m1", _p(ach_select, "ach1"))],
    "ev_ach1_unselect": [("m1", _p(ach_unselect, "ach1"))],
    "ev_ach2_start": [("m1", _p(ach_start, "ach2"))],
    "ev_ach2_stop": [("m1", _p(ach_stop, "ach2"))],
    "ev_ach2_complete": [("m1", _p(ach_complete, "ach2"))],
    "ev_ach2_enable": [("m1", _p(ach_enable, "ach2"))],
    "ev_ach2_disable": [("m1", _p(ach_disable, "ach2"))],
    "ev_t1_start": [("m1", t1_start)],
    "ev_t1_stop": [("m1", t1_stop)],
    "ev_t1_add": [("m1", t1_add)],
    "ev_t1_jump": [("m1", t1_jump)],
    "ev_t1_pause": [("m1", t1_pause)],
    "ev_score": [("m2", var_add("score", 50)), ("m1", var_add("score", 100))],
    "ev_float": [("m1", var_add("pv_float", 0.25))],
    "ev_str1": [("m1", var_set("pv_str", "set1"))],
    "ev_str2": [("m1", var_set("pv_str", "set2"))],
    "ev_int_set": [("m1", var_set("pv_int", 7))],
    "ev_int_add": [("m1", var_add("pv_int", -2))],
    "ev_new_var": [("m1", var_add("pv_new", 3))],
    "ev_eb": [("m1", var_add("extra_balls", 1))],
    # the one *intended* cross-player write of the machine: `player: 1` in the variable_player entry
    "ev_gift": [("m1", var_add("gift", 1), 1)],
    "ev_c_m2": [("m2", _p(counter_count, "c_m2"))],
    "ev_m2_str": [("m2", var_set("pv_str", "from_m2"))],
    "ev_ag_rotate": [], "ev_ag_rotate_left": [], "ev_ag_start": [], "ev_ag_enable": [], "ev_ag_disable": [],
    "ev_q_a_complete": [], "ev_q_b_stop": [],
    "achievement_q_a_changed_state": [], "achievement_q_b_changed_state": [],
    "ev_ag2_rotate": [("m1", _p(g_rotate, False))],
    "ev_ag2_rotate_left": [("m1", _p(g_rotate, True))],
    "ev_ag2_select": [("m1", _p(g_rotate, False))],       # disable_random: the select event rotates
    "ev_ag2_start": [("m1", g_start_selected)],
    "ev_ag2_enable": [("m1", g_enable)],
    "ev_ag2_disable": [("m1", g_disable)],
    "ev_g_a_select": [("m1", _p(ach_select, "g_a"))],
    "ev_g_b_select": [("m1", _p(ach_select, "g_b"))],
    "ev_g_c_select": [("m1", _p(ach_select, "g_c"))],
    "ev_g_complete": [("m1", _p(ach_complete, n)) for n in G_ACH],
    "ev_g_stop": [("m1", _p(ach_stop, n)) for n in G_ACH],
    "ev_g_reset": [("m1", _p(ach_reset, n)) for n in G_ACH],
    # posted by the member achievements whenever they (re)announce their state: the group reacts
    "achievement_g_a_changed_state": [("m1", g_member_changed)],
    "achievement_g_b_changed_state": [("m1", g_member_changed)],
    "achievement_g_c_changed_state": [("m1", g_member_changed)],
    "ev_m2_start": [],
    "ev_m2_stop": [],
    # events emitted by the devices themselves that the variable_player of m1 scores on
    "logicblock_c_up_complete": [("m1", var_add("score", 1000))],
    "logicblock_a1_complete": [("m1", var_add("score", 2000))],
    "logicblock_q1_complete": [("m1", var_add("score", 3000))],
    "sh_a_lit_hit": [("m1", var_add("score", 10))],
    "timer_t1_complete": [("m1", var_add("score", 5000))],
}


# ---------------------------------------------------------------- mode load / unload

def model_load(x, mode):
    """A game mode has just loaded its devices for the player x.pnum (documented (re)initialisation)."""
    dev = x.dev
    dev["attached"][mode] = x.pnum
    dev["seq"][mode] += 1
    dev["load_time"][mode] = x.now
    dev["pending_enable"][mode] = []
    for name in MODE_LBS[mode]:
        c = LB[name]
        if c["persist"]:
            if name not in x.ps["lbs"]:
                x.ps["lbs"][name] = [lb_start_value(name), False, False]
                if c["se"]:
                    dev["pending_enable"][mode].append(name)
            else:
                st = x.ps["lbs"][name]
                # a restored, still running block may have its timeout re-armed at restore (statement leaves it open)
                dev["restore_arm"][name] = x.now if (st[1] and not st[2]) else None
        else:
            dev["c_np"] = [lb_start_value(name), False, False]
            if c["se"]:
                dev["pending_enable"][mode].append(name)
    if mode == "m2":
        # q_a/q_b: created enabled, restored with the documented defaults; everything else that happens to them is
        # driven by the achievement group in m1 and is not modelled (see R-group-havoc in the check)
        if not x.ps["ach"]:
            x.ps["ach"] = {}
        for n in Q_ACH:
            if n not in x.ps["ach"]:
                x.ps["ach"][n] = ["enabled", False]
            elif x.ps["ach"][n][0] == "started":
                x.ps["ach"][n][0] = "stopped"
    if mode != "m1":
        return
    # a shot group's rotation starts from its config (enable_rotation_events => off) whenever its mode starts
    dev["sg2_rot"] = False
    for n in SHOT_ORDER:
        key = "shot_%s_enabled" % n
        if key not in x.ps["vars"]:
            x.ps["vars"][key] = SHOTS[n]
    if not x.ps["ach"]:
        x.ps["ach"] = {}
    for n in sorted(ACH):
        if n not in x.ps["ach"]:
            x.ps["ach"][n] = [ACH[n]["initial"], False]
        else:
            a = x.ps["ach"][n]
            if a[0] == "started" and not ACH[n]["ronb"]:
                a[0] = "stopped"
            elif a[0] == "enabled" and not ACH[n]["eonb"]:
                a[0] = "disabled"
    dev["ag2"] = new_group()
    dev["ag2"]["loaded"] = True
    # the timer (re)starts from its start value every time the mode loads
    x.ps["vars"][TICK] = 0
    dev["t1_running"] = False
    dev["t1_pause"] = None
    if x.cfg.get("t1_run"):
        t1_start(x)


def model_starting(x, mode):
    """mode_<m>_starting is dispatched: freshly created logic blocks with start_enabled are enabled now."""
    for name in x.dev["pending_enable"][mode]:
        lb_enable(x, name)
    x.dev["pending_enable"][mode] = []


def model_unload(dev, mode):
    dev["attached"][mode] = None
    dev["pending_enable"][mode] = []
    if mode == "m1":
        dev["ag2"] = new_group()
        dev["t1_running"] = False
        dev["t1_pause"] = None
        dev["c_np"] = None
        dev["dl"] = []


# ---------------------------------------------------------------- canonical forms

def canon_value(v):
    if isinstance(v, list):
        return tuple(canon_value(i) for i in v)
    return (type(v).__name__, v)


def canon_shadow(ps):
    out = {}
    for k, v in ps["vars"].items():
        out[k] = canon_value(v)
    for k, st in ps["lbs"].items():
        out[k + "_state"] = ("lb", canon_value(st[0]), bool(st[1]), bool(st[2]))
    if ps["ach"] is not None:
        out["achievements"] = ("ach", tuple(sorted((n, a[0], bool(a[1])) for n, a in ps["ach"].items())))
    return out
