"""Reference model for C03: switch state, untimed/timed switch handlers, configured events.

Written from the property statement (not from switch_controller.py):

* logical state = last report (raw reports of an NC switch are inverted);
* a *real change* calls every untimed handler registered for the new state once and posts the
  immediate configured events once; a duplicate report does nothing at all;
* a handler with a hold time `ms` fires exactly once at change + ms iff the switch stayed in
  that state throughout; registered while the switch already is in the state it fires at the
  *original* deadline (last change + ms) if that is still ahead and never otherwise;
* a removed handler never fires.

The model is driven by what the loop *processed* (the driver calls begin_report/end_report
around the real call, add/remove at the instant they are executed, on_* from the callbacks).

Relaxations (each one is something the statement leaves open):
  R1  a change processed in the very instant of a pending deadline: the handler may or may not fire
      (but only in that instant).
  R2  a handler registered exactly at the original deadline (|deadline - now| <= EPS): may or may not fire.
  R3  an untimed handler registered *while* the change that it listens for is being dispatched
      may or may not be called for that change.
  R4  immediate configured events nobody listens to may be skipped (documented fast path).
  R5  the switch with an ignore window: only "at most one post per real change (per direction),
      none caused by a duplicate".
  R7  when the loop was stalled across a deadline and lands late, it runs what became due in nominal
      order; a report that was due before the deadline is then *processed* before it (with a later time
      stamp): the handler must not fire (the change came first), and that is not a missed deadline.
      Only applies at a stall landing instant and to deadlines inside the stalled window.
  R6  is_active/is_inactive(ms): MPF documents whole milliseconds; within +-0.5 ms of the boundary
      either answer is accepted.
"""

EPS = 1e-7


class Arm:
    __slots__ = ("deadline", "optional", "fired", "live", "void_reason", "only_at", "born")

    def __init__(self, deadline, born, optional=False):
        self.deadline = deadline
        self.born = born
        self.optional = optional
        self.fired = 0
        self.live = True
        self.void_reason = None
        self.only_at = None          # R1: may still fire, but only at this instant

    def __repr__(self):
        return "Arm(due=%.6f fired=%d live=%s opt=%s void=%s)" % (
            self.deadline, self.fired, self.live, self.optional, self.void_reason)


class Token:
    """One registration (or `mult` identical registrations made in one go)."""

    def __init__(self, tid, sw, state, ms, mult=1, event=None):
        self.id = tid
        self.sw = sw
        self.state = state
        self.ms = ms
        self.mult = mult
        self.event = event           # builtin: a configured "event|ms" entry of the switch
        self.removed = False
        self.removed_at = None
        self.arms = []
        self.calls = 0
        self.reg_time = None
        self.never_reason = None     # why a mid-interval registration got no arm

    def __repr__(self):
        return "Tok#%d(%s,st=%d,ms=%s%s%s)" % (self.id, self.sw, self.state, self.ms,
                                              ",x%d" % self.mult if self.mult > 1 else "",
                                              ",ev=" + self.event if self.event else "")


class SwModel:

    def __init__(self, name, spec):
        self.name = name
        self.nc = 1 if spec.get("nc") else 0
        self.now_events = {0: list(spec.get("now", {}).get(0, [])), 1: list(spec.get("now", {}).get(1, []))}
        self.timed_events = {0: list(spec.get("timed", {}).get(0, [])), 1: list(spec.get("timed", {}).get(1, []))}
        self.ign = spec.get("ign", 0.0)
        self.state = 0
        self.last_change = None      # None: "since for ever"
        self.changes = [0, 0]        # real changes into state 0 / 1
        self.ign_posts = [0, 0]
        self.ign_last_post = None
        self.reports = 0


class Model:

    def __init__(self, table, viol, probe, late_ok, stall_start=None, log=None):
        self.stall_start = stall_start or (lambda now: None)
        self.viol = viol
        self.probe = probe
        self.late_ok = late_ok
        self.log = log or (lambda *a, **k: None)
        self.sw = {n: SwModel(n, spec) for n, spec in table.items()}
        self.tokens = []
        self.by_event = {}
        self.dispatch = None
        self.listened = set()
        self.ign_events = {}
        self.now_event_names = set()
        for n in table:          # table order (a dict literal: deterministic)
            s = self.sw[n]
            for st in (0, 1):
                for ev, ms in s.timed_events[st]:
                    tok = self._new_token(n, st, ms, 1, ev)
                    tok.reg_time = -1.0
                    self.by_event[ev] = tok
                for ev in s.now_events[st]:
                    self.now_event_names.add(ev)
                    if s.ign:
                        self.ign_events[ev] = (n, st)

    # -- helpers -----------------------------------------------------------------------
    def _new_token(self, sw, state, ms, mult, event=None):
        tok = Token(len(self.tokens) + 1, sw, state, ms, mult, event)
        self.tokens.append(tok)
        return tok

    def live_tokens(self, sw=None):
        return [t for t in self.tokens if not t.removed and t.event is None and (sw is None or t.sw == sw)]

    def pending_deadlines(self, now):
        out = []
        for t in self.tokens:
            if t.removed:
                continue
            for a in t.arms:
                if a.live and a.fired < t.mult and a.deadline >= now - EPS and a.only_at is None:
                    out.append(a.deadline)
        for s in self.sw.values():
            if s.ign and s.ign_last_post is not None and s.ign_last_post + s.ign >= now:
                out.append(s.ign_last_post + s.ign)
        return sorted(set(out))

    def n_pending(self):
        return sum(1 for t in self.tokens if not t.removed for a in t.arms if a.live and a.fired < t.mult)

    def _arm(self, tok, deadline, now, optional=False):
        for t in self.tokens:
            if t is tok or t.sw != tok.sw or t.removed:
                continue
            for a in t.arms:
                if a.live and a.fired < t.mult and abs(a.deadline - deadline) <= 1e-12:
                    self.probe("same_deadline_two_handlers")
        arm = Arm(deadline, now, optional)
        tok.arms.append(arm)
        return arm

    # -- reports -----------------------------------------------------------------------
    def begin_report(self, name, value, logical, now):
        s = self.sw[name]
        s.reports += 1
        new = value if logical else value ^ s.nc
        real = new != s.state
        if self.dispatch is not None:
            raise AssertionError("nested report (the workload never does that)")
        d = {"sw": name, "state": new, "real": real, "exp": [], "calls": {}, "events": {}, "t": now,
             "removed_during": set()}
        self.dispatch = d
        if s.nc:
            self.probe("report_nc_logical" if logical else "report_nc_raw")
        if not real:
            self.probe("report_duplicate")
            return False
        self.probe("report_real_change")
        # the switch leaves state (1-new): every pending hold-time entry of the old state is settled now
        for t in self.tokens:
            if t.sw != name or t.removed:
                continue
            for a in t.arms:
                if not a.live:
                    continue
                if a.fired >= t.mult:
                    a.live = False
                    continue
                if a.deadline < now - EPS:
                    w0 = self.stall_start(now)
                    if w0 is not None and a.deadline >= w0 - 1e-9:
                        # R7: the loop was stalled across the deadline and ran the (nominally earlier) report
                        # first: the change was processed before the deadline, so the handler must not fire
                        self.probe("change_before_deadline_in_stall")
                        a.live = False
                        a.void_reason = "change processed first after a stall"
                        continue
                    if not a.optional:
                        self.viol("missed_fire", "timed handler not called before the next change",
                                  "%r: deadline %.6f passed (armed at %.6f) but the handler was not called before "
                                  "the switch changed again at %.6f" % (t, a.deadline, a.born, now))
                    a.live = False
                    a.void_reason = "missed"
                elif a.deadline <= now + EPS:
                    # R1: change in the very instant of the deadline
                    self.probe("change_in_deadline_instant")
                    a.optional = True
                    a.only_at = now
                    a.void_reason = "change at deadline"
                else:
                    a.live = False
                    a.void_reason = "change"
                    self.probe("timed_cancelled_by_change")
        s.state = new
        s.last_change = now
        s.changes[new] += 1
        for t in self.tokens:
            if t.sw == name and t.state == new and not t.removed:
                if t.ms:
                    self._arm(t, now + t.ms / 1000.0, now)
                elif t.event is None:
                    d["exp"].append(t)
        return True

    def end_report(self, now):
        d = self.dispatch
        self.dispatch = None
        s = self.sw[d["sw"]]
        if not d["real"]:
            return
        for t in d["exp"]:
            n = d["calls"].get(t.id, 0)
            if t.id in d["removed_during"] and n <= t.mult:
                # removed by a callback while this change was being dispatched: no calls after the removal
                # (on_untimed_call flags those), so fewer calls than registrations is what must happen
                continue
            if n != t.mult:
                self.viol("untimed_call_count", "called %d times instead of %d" % (n, t.mult),
                          "%r was called %d time(s) for the change of %s to %d at %.6f"
                          % (t, n, d["sw"], d["state"], now))
        if not s.ign:
            for ev in s.now_events[d["state"]]:
                n = d["events"].get(ev, 0)
                if ev in self.listened:
                    if n != 1:
                        self.viol("event_post_count", "immediate event posted %d times" % n,
                                  "event %s posted %d times for the change of %s to %d at %.6f"
                                  % (ev, n, d["sw"], d["state"], now))
                elif n > 1:        # R4
                    self.viol("event_post_count", "immediate event posted %d times" % n,
                              "event %s posted %d times for one change" % (ev, n))

    # -- callbacks ---------------------------------------------------------------------
    def on_untimed_call(self, tok, now):
        tok.calls += 1
        d = self.dispatch
        if tok.removed:
            self.viol("called_after_remove", "untimed", "%r called at %.6f, removed at %.6f" % (tok, now, tok.removed_at))
            return
        if d is None:
            self.viol("untimed_unexpected_call", "no report in progress",
                      "%r called at %.6f outside of any switch report" % (tok, now))
            return
        if not d["real"]:
            self.viol("untimed_unexpected_call", "duplicate report",
                      "%r called for a duplicate report of %s=%d at %.6f" % (tok, d["sw"], d["state"], now))
            return
        if d["sw"] != tok.sw or d["state"] != tok.state:
            self.viol("untimed_unexpected_call", "wrong switch or state",
                      "%r called while %s changed to %d" % (tok, d["sw"], d["state"]))
            return
        n = d["calls"][tok.id] = d["calls"].get(tok.id, 0) + 1
        if n > tok.mult:
            self.viol("untimed_call_count", "called %d times instead of %d" % (n, tok.mult),
                      "%r called %d times for one change at %.6f" % (tok, n, now))

    def on_timed_fire(self, tok, now):
        tok.calls += 1
        if tok.removed:
            self.viol("called_after_remove", "timed", "%r fired at %.6f, removed at %.6f" % (tok, now, tok.removed_at))
            return None
        s = self.sw[tok.sw]
        cands = [a for a in tok.arms if a.live and a.deadline <= now + 1e-9
                 and (a.only_at is None or abs(a.only_at - now) <= EPS)]
        if not cands:
            early = [a for a in tok.arms if a.live and a.deadline > now + 1e-9]
            if early:
                self.viol("timed_wrong_time", "early", "%r fired at %.6f, deadline %.6f" % (tok, now, early[0].deadline))
            elif s.state != tok.state:
                self.viol("timed_fire_not_held", "switch not in that state",
                          "%r fired at %.6f while %s is %d (last change %.6f)" % (tok, now, tok.sw, s.state,
                                                                                 s.last_change or -1))
            elif tok.never_reason and not tok.arms:
                self.viol("timed_fire_not_held", tok.never_reason,
                          "%r registered at %.6f when %s had already been %d for %.1f ms (original deadline passed) "
                          "fired anyway at %.6f" % (tok, tok.reg_time, tok.sw, tok.state,
                                                    (tok.reg_time - (s.last_change or 0.0)) * 1000.0, now))
            else:
                last = tok.arms[-1] if tok.arms else None
                self.viol("timed_fire_not_held", "no pending deadline",
                          "%r fired at %.6f without a pending deadline (last: %r, reason %s)"
                          % (tok, now, last, tok.never_reason))
            return None
        arm = cands[0]
        arm.fired += 1
        if arm.fired > tok.mult:
            self.viol("timed_fired_twice", "fired %d times" % arm.fired,
                      "%r fired %d times for the change at %.6f" % (tok, arm.fired, arm.born))
        if not self.late_ok(arm.deadline, now):
            self.viol("timed_wrong_time", "late without stall",
                      "%r due %.9f fired at %.9f" % (tok, arm.deadline, now))
        if now - arm.deadline > 1e-9:
            self.probe("timed_fire_late_after_stall")
        self.probe("configured_timed_event_fire" if tok.event else "timed_fire")
        return arm

    def on_event(self, name, now):
        if name in self.by_event:
            return self.on_timed_fire(self.by_event[name], now)
        d = self.dispatch
        if name in self.ign_events:
            swn, st = self.ign_events[name]
            s = self.sw[swn]
            if d is not None and not d["real"]:
                self.viol("event_unexpected_post", "duplicate report", "%s posted during a duplicate report of %s"
                          % (name, d["sw"]))
            s.ign_posts[st] += 1
            if s.ign_posts[st] > s.changes[st]:
                self.viol("event_post_count", "ignore-window switch posted more than once per change",
                          "%s posted %d times for %d changes to %d" % (name, s.ign_posts[st], s.changes[st], st))
            if d is None:
                self.probe("ign_window_delayed_post")
            else:
                s.ign_last_post = now
            return None
        if d is None:
            self.viol("event_unexpected_post", "no report in progress", "%s posted at %.6f outside of a switch report"
                      % (name, now))
            return None
        s = self.sw[d["sw"]]
        if not d["real"]:
            self.viol("event_unexpected_post", "duplicate report", "%s posted for duplicate report of %s=%d at %.6f"
                      % (name, d["sw"], d["state"], now))
            return None
        if name not in s.now_events[d["state"]]:
            self.viol("event_unexpected_post", "wrong switch or state",
                      "%s posted while %s changed to %d" % (name, d["sw"], d["state"]))
            return None
        d["events"][name] = d["events"].get(name, 0) + 1
        return None

    # -- registrations -----------------------------------------------------------------
    def add(self, sw, state, ms, mult, now):
        tok = self._new_token(sw, state, ms, mult)
        tok.reg_time = now
        s = self.sw[sw]
        if ms and s.state == state:
            if s.last_change is None:
                tok.never_reason = "switch in state since boot"
                self.probe("add_in_state_long_after")
            else:
                dl = s.last_change + ms / 1000.0
                if dl > now + EPS:
                    self._arm(tok, dl, now)
                    self.probe("add_in_state_before_deadline")
                elif dl >= now - EPS:
                    self._arm(tok, dl, now, optional=True)      # R2
                    self.probe("add_in_state_at_deadline")
                else:
                    tok.never_reason = "registered after the original deadline"
                    if now - dl >= 4.0:
                        self.probe("add_in_state_long_after")
                    else:
                        self.probe("add_in_state_after_deadline")
        return tok

    def remove(self, tok, now):
        if tok.removed:
            return
        tok.removed = True
        tok.removed_at = now
        pend = False
        for a in tok.arms:
            if a.live and a.fired < tok.mult:
                pend = True
            a.live = False
            a.void_reason = "removed"
        if pend:
            self.probe("remove_with_pending_arm")
        d = self.dispatch
        if d is not None and d["real"]:
            d["removed_during"].add(tok.id)

    # -- queries -----------------------------------------------------------------------
    def query(self, sw, state, ms, now):
        """Expected answer of is_state(sw, state, ms): True / False / None (R6: either)."""
        s = self.sw[sw]
        if s.state != state:
            return False
        if not ms or s.last_change is None:
            return True
        el = (now - s.last_change) * 1000.0
        if abs(el - ms) <= 0.5 + 1e-6:
            return None
        return el > ms

    def finish(self, end, margin=0.5):
        for t in self.tokens:
            if t.removed:
                continue
            for a in t.arms:
                if a.live and not a.optional and a.fired < t.mult and a.deadline <= end - margin:
                    self.viol("missed_fire", "timed handler never called",
                              "%r: armed at %.6f, due %.6f, switch stayed %d, never called (fired %d/%d, end %.6f)"
                              % (t, a.born, a.deadline, t.state, a.fired, t.mult, end))
