"""Custom mode code for the C07 machine: registers delays, switch handlers and event handlers the way real mode code
does (see mpf/modes/attract/code/attract.py for the switch handler idiom).

Every hook call and every invocation of something this code registered is written to a log that the check reads:
  calls: (hook name, mode.active)            fired: (what, mode.active, mode.stopping, time)
"""
from mpf.core.mode import Mode


class Coded(Mode):

    def mode_init(self):
        self.calls = []
        self.fired = []

    def _note(self, what):
        self.fired.append((what, bool(self.active), bool(self.stopping), self.machine.clock.get_time()))

    def mode_will_start(self, **kwargs):
        self.calls.append(("mode_will_start", bool(self.active)))

    def mode_start(self, **kwargs):
        self.calls.append(("mode_start", bool(self.active)))
        self.delay.add(ms=400, callback=self._tick, name="tick")
        self.delay.add(ms=5000, callback=self._long)
        self.add_mode_event_handler("coded_ping", self._ping)
        self.add_mode_event_handler("coded_ping{machine.c07_flag==1}", self._ping_cond, priority=5)
        self.add_mode_event_handler("coded_later", self._later, extra=1)
        self.add_mode_event_handler("coded_watch", self._watch)
        sc = self.machine.switch_controller
        self.switch_handlers.append(sc.add_switch_handler("s_code", self._sw, 1))
        self.switch_handlers.append(sc.add_switch_handler("s_code", self._sw_off, 0))
        self.switch_handlers.append(sc.add_switch_handler("s_code", self._sw_held, 1, ms=200))
        self.machine.events.post("coded_at_work")

    def mode_stop(self, **kwargs):
        self.calls.append(("mode_stop", bool(self.active)))

    def _tick(self):
        self._note("tick")
        self.delay.add(ms=400, callback=self._tick, name="tick")
        self.machine.events.post("coded_tick")

    def _long(self):
        self._note("long")

    def _ping(self, **kwargs):
        self._note("ping")

    def _ping_cond(self, **kwargs):
        self._note("ping_cond")

    def _later(self, **kwargs):
        # typical "do it a bit later" handler
        self._note("later")
        self.delay.add(ms=150, callback=self._late_work, name="late_work")

    def _watch(self, **kwargs):
        # start watching a switch when asked to (the handler is tracked in switch_handlers like in attract mode)
        self._note("watch")
        self.switch_handlers.append(self.machine.switch_controller.add_switch_handler("s_misc", self._sw_misc, 1))

    def _sw_misc(self):
        self._note("sw_misc")

    def _late_work(self):
        self._note("late_work")
        self.machine.events.post("coded_late_work")

    def _sw(self):
        self._note("sw")

    def _sw_off(self):
        self._note("sw_off")

    def _sw_held(self):
        self._note("sw_held")
